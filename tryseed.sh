#!/bin/bash
# tryseed.sh <patch.diff> <PROP>...  : apply patch to /repo, run the checks into a scratch evidence dir, revert.
patch=$(realpath "$1"); shift
git -C /repo apply "$patch" || { echo "cannot apply $patch"; exit 2; }
trap 'git -C /repo apply -R "$patch"' EXIT
for p in "$@"; do
  out=$(/verif/bin/govc check -repo /repo -evidence /tmp/tryseed_ev.json -replaydir /tmp/tryseed_replay $p 2>&1)
  echo "--- $p: $(echo "$out" | grep -c '^VIOLATION') violation(s)"
  echo "$out" | grep -E "^VIOLATION|TOOL-FAULT" | head -5
  echo "$out" | tail -1
done
rm -rf /tmp/tryseed_ev.json /tmp/tryseed_replay

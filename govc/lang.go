package main

// Contract expression language: Go expression syntax plus
//   ==>  <==>  forall x T, y T :: e   exists x T :: e   old(e)   cond ? a : b (written ite(c,a,b))

import (
	"fmt"
	"strings"
	"unicode"
)

type Expr struct {
	Kind  string // ident, num, str, char, unary, binary, call, index, slice, sel, quant, paren
	Op    string
	Name  string
	Args  []*Expr
	Binds []Binder // quant
	Pos   int
}

type Binder struct {
	Name string
	Type string
}

func (e *Expr) String() string {
	switch e.Kind {
	case "ident", "num":
		return e.Name
	case "str":
		return fmt.Sprintf("%q", e.Name)
	case "char":
		return fmt.Sprintf("%q", rune(e.Name[0]))
	case "unary":
		return e.Op + e.Args[0].String()
	case "binary":
		return "(" + e.Args[0].String() + " " + e.Op + " " + e.Args[1].String() + ")"
	case "call":
		var as []string
		for _, a := range e.Args[1:] {
			as = append(as, a.String())
		}
		return e.Args[0].String() + "(" + strings.Join(as, ", ") + ")"
	case "index":
		return e.Args[0].String() + "[" + e.Args[1].String() + "]"
	case "slice":
		s := e.Args[0].String() + "["
		if e.Args[1] != nil {
			s += e.Args[1].String()
		}
		s += ":"
		if e.Args[2] != nil {
			s += e.Args[2].String()
		}
		return s + "]"
	case "sel":
		return e.Args[0].String() + "." + e.Name
	case "quant":
		var bs []string
		for _, b := range e.Binds {
			bs = append(bs, b.Name+" "+b.Type)
		}
		return "(" + e.Op + " " + strings.Join(bs, ", ") + " :: " + e.Args[0].String() + ")"
	}
	return "?"
}

type ltok struct {
	kind string // ident, num, str, char, op, eof
	text string
	pos  int
}

func lex(src string) ([]ltok, error) {
	var toks []ltok
	i := 0
	ops := []string{"<==>", "==>", "&^", "<<", ">>", "&&", "||", "==", "!=", "<=", ">=", "::",
		"+", "-", "*", "/", "%", "&", "|", "^", "<", ">", "!", "(", ")", "[", "]", ",", ":", ".", "{", "}", "="}
	for i < len(src) {
		c := rune(src[i])
		switch {
		case unicode.IsSpace(c):
			i++
		case unicode.IsLetter(c) || c == '_':
			j := i
			for j < len(src) && (unicode.IsLetter(rune(src[j])) || unicode.IsDigit(rune(src[j])) || src[j] == '_' || src[j] == '#' || src[j] == '$') {
				j++
			}
			toks = append(toks, ltok{"ident", src[i:j], i})
			i = j
		case unicode.IsDigit(c):
			j := i
			for j < len(src) && (unicode.IsLetter(rune(src[j])) || unicode.IsDigit(rune(src[j])) || src[j] == '_') {
				j++
			}
			toks = append(toks, ltok{"num", strings.ReplaceAll(src[i:j], "_", ""), i})
			i = j
		case c == '"':
			j := i + 1
			var sb strings.Builder
			for j < len(src) && src[j] != '"' {
				if src[j] == '\\' && j+1 < len(src) {
					j++
					switch src[j] {
					case 'n':
						sb.WriteByte('\n')
					case 'r':
						sb.WriteByte('\r')
					case 't':
						sb.WriteByte('\t')
					default:
						sb.WriteByte(src[j])
					}
				} else {
					sb.WriteByte(src[j])
				}
				j++
			}
			if j >= len(src) {
				return nil, fmt.Errorf("unterminated string at %d", i)
			}
			toks = append(toks, ltok{"str", sb.String(), i})
			i = j + 1
		case c == '\'':
			if i+2 < len(src) && src[i+1] != '\\' && src[i+2] == '\'' {
				toks = append(toks, ltok{"char", string(src[i+1]), i})
				i += 3
			} else if i+3 < len(src) && src[i+1] == '\\' && src[i+3] == '\'' {
				ch := src[i+2]
				switch ch {
				case 'n':
					ch = '\n'
				case 'r':
					ch = '\r'
				case 't':
					ch = '\t'
				}
				toks = append(toks, ltok{"char", string(ch), i})
				i += 4
			} else {
				return nil, fmt.Errorf("bad char literal at %d", i)
			}
		default:
			matched := false
			for _, o := range ops {
				if strings.HasPrefix(src[i:], o) {
					toks = append(toks, ltok{"op", o, i})
					i += len(o)
					matched = true
					break
				}
			}
			if !matched {
				return nil, fmt.Errorf("unexpected character %q at %d in %q", c, i, src)
			}
		}
	}
	toks = append(toks, ltok{"eof", "", len(src)})
	return toks, nil
}

type parser struct {
	toks []ltok
	p    int
	src  string
}

func ParseExpr(src string) (e *Expr, err error) {
	toks, err := lex(src)
	if err != nil {
		return nil, err
	}
	ps := &parser{toks: toks, src: src}
	defer func() {
		if r := recover(); r != nil {
			if pe, ok := r.(parseErr); ok {
				err = fmt.Errorf("%s in %q", string(pe), src)
				return
			}
			panic(r)
		}
	}()
	e = ps.expr()
	if ps.peek().kind != "eof" {
		ps.fail("unexpected %q", ps.peek().text)
	}
	return e, nil
}

type parseErr string

func (p *parser) fail(f string, a ...interface{}) {
	panic(parseErr(fmt.Sprintf("parse error at %d: ", p.peek().pos) + fmt.Sprintf(f, a...)))
}
func (p *parser) peek() ltok { return p.toks[p.p] }
func (p *parser) next() ltok { t := p.toks[p.p]; p.p++; return t }
func (p *parser) isOp(s string) bool {
	t := p.peek()
	return t.kind == "op" && t.text == s
}
func (p *parser) accept(s string) bool {
	if p.isOp(s) {
		p.p++
		return true
	}
	return false
}
func (p *parser) expect(s string) {
	if !p.accept(s) {
		p.fail("expected %q, got %q", s, p.peek().text)
	}
}

func (p *parser) expr() *Expr {
	t := p.peek()
	if t.kind == "ident" && (t.text == "forall" || t.text == "exists") {
		p.next()
		q := &Expr{Kind: "quant", Op: t.text, Pos: t.pos}
		for {
			n := p.next()
			if n.kind != "ident" {
				p.fail("binder name expected")
			}
			ty := p.typeText()
			q.Binds = append(q.Binds, Binder{n.text, ty})
			if !p.accept(",") {
				break
			}
		}
		p.expect("::")
		q.Args = []*Expr{p.expr()}
		return q
	}
	return p.iff()
}

// typeText reads a simple type: ident, []ident, *ident, pkg.ident
func (p *parser) typeText() string {
	var sb strings.Builder
	for {
		t := p.peek()
		if t.kind == "op" && (t.text == "[" || t.text == "]" || t.text == "*" || t.text == ".") {
			sb.WriteString(t.text)
			p.next()
			continue
		}
		if t.kind == "ident" {
			sb.WriteString(t.text)
			p.next()
			if p.isOp(".") {
				continue
			}
			break
		}
		break
	}
	if sb.Len() == 0 {
		p.fail("type expected")
	}
	return sb.String()
}

func (p *parser) iff() *Expr {
	l := p.imp()
	for p.isOp("<==>") {
		t := p.next()
		r := p.imp()
		l = &Expr{Kind: "binary", Op: "<==>", Args: []*Expr{l, r}, Pos: t.pos}
	}
	return l
}

func (p *parser) imp() *Expr {
	l := p.or()
	if p.isOp("==>") {
		t := p.next()
		// the right side may itself be a quantifier
		var r *Expr
		if pk := p.peek(); pk.kind == "ident" && (pk.text == "forall" || pk.text == "exists") {
			r = p.expr()
		} else {
			r = p.imp()
		}
		return &Expr{Kind: "binary", Op: "==>", Args: []*Expr{l, r}, Pos: t.pos}
	}
	return l
}

func (p *parser) binLevel(sub func() *Expr, ops ...string) *Expr {
	l := sub()
	for {
		found := false
		for _, o := range ops {
			if p.isOp(o) {
				t := p.next()
				r := sub()
				l = &Expr{Kind: "binary", Op: o, Args: []*Expr{l, r}, Pos: t.pos}
				found = true
				break
			}
		}
		if !found {
			return l
		}
	}
}

func (p *parser) or() *Expr  { return p.binLevel(p.and, "||") }
func (p *parser) and() *Expr { return p.binLevel(p.cmp, "&&") }
func (p *parser) cmp() *Expr {
	l := p.add()
	for _, o := range []string{"==", "!=", "<=", ">=", "<", ">"} {
		if p.isOp(o) {
			t := p.next()
			r := p.add()
			l = &Expr{Kind: "binary", Op: o, Args: []*Expr{l, r}, Pos: t.pos}
			// allow chains a <= b < c  as conjunction
			for _, o2 := range []string{"==", "!=", "<=", ">=", "<", ">"} {
				if p.isOp(o2) {
					t2 := p.next()
					r2 := p.add()
					l = &Expr{Kind: "binary", Op: "&&", Args: []*Expr{l,
						{Kind: "binary", Op: o2, Args: []*Expr{r, r2}, Pos: t2.pos}}, Pos: t2.pos}
					break
				}
			}
			break
		}
	}
	return l
}
func (p *parser) add() *Expr { return p.binLevel(p.mul, "+", "-", "|", "^") }
func (p *parser) mul() *Expr { return p.binLevel(p.unary, "*", "/", "%", "<<", ">>", "&^", "&") }

func (p *parser) unary() *Expr {
	for _, o := range []string{"!", "-", "^"} {
		if p.isOp(o) {
			t := p.next()
			return &Expr{Kind: "unary", Op: o, Args: []*Expr{p.unary()}, Pos: t.pos}
		}
	}
	return p.postfix()
}

func (p *parser) postfix() *Expr {
	e := p.primary()
	for {
		switch {
		case p.isOp("."):
			t := p.next()
			n := p.next()
			if n.kind != "ident" {
				p.fail("field name expected")
			}
			e = &Expr{Kind: "sel", Name: n.text, Args: []*Expr{e}, Pos: t.pos}
		case p.isOp("["):
			t := p.next()
			var lo, hi *Expr
			if !p.isOp(":") {
				lo = p.expr()
			}
			if p.accept(":") {
				if !p.isOp("]") {
					hi = p.expr()
				}
				p.expect("]")
				e = &Expr{Kind: "slice", Args: []*Expr{e, lo, hi}, Pos: t.pos}
			} else {
				p.expect("]")
				e = &Expr{Kind: "index", Args: []*Expr{e, lo}, Pos: t.pos}
			}
		case p.isOp("("):
			t := p.next()
			args := []*Expr{e}
			for !p.isOp(")") {
				args = append(args, p.expr())
				if !p.accept(",") {
					break
				}
			}
			p.expect(")")
			e = &Expr{Kind: "call", Args: args, Pos: t.pos}
		default:
			return e
		}
	}
}

func (p *parser) primary() *Expr {
	t := p.next()
	switch t.kind {
	case "ident":
		return &Expr{Kind: "ident", Name: t.text, Pos: t.pos}
	case "num":
		return &Expr{Kind: "num", Name: t.text, Pos: t.pos}
	case "str":
		return &Expr{Kind: "str", Name: t.text, Pos: t.pos}
	case "char":
		return &Expr{Kind: "char", Name: t.text, Pos: t.pos}
	case "op":
		if t.text == "(" {
			e := p.expr()
			p.expect(")")
			return e
		}
		if t.text == "[" && p.isOp("]") {
			// []byte(x) style conversion: "[]T" as a callee name
			p.next()
			n := p.next()
			return &Expr{Kind: "ident", Name: "[]" + n.text, Pos: t.pos}
		}
	}
	p.p--
	p.fail("unexpected %q", t.text)
	return nil
}

// substExpr replaces identifiers by expressions (used for `let` macros).
func substExpr(e *Expr, m map[string]*Expr) *Expr {
	if e == nil || len(m) == 0 {
		return e
	}
	if e.Kind == "ident" {
		if r, ok := m[e.Name]; ok {
			return r
		}
		return e
	}
	ne := *e
	ne.Args = make([]*Expr, len(e.Args))
	inner := m
	if e.Kind == "quant" {
		inner = map[string]*Expr{}
		for k, v := range m {
			inner[k] = v
		}
		for _, b := range e.Binds {
			delete(inner, b.Name)
		}
	}
	for i, a := range e.Args {
		ne.Args[i] = substExpr(a, inner)
	}
	return &ne
}

package main

// Solver pool: z3 4.8.12 (z3), z3 5.1.0 (z3-new), cvc5 1.0.x. Each obligation is an independent
// SMT-LIB script; first unsat wins, sat from any solver yields the model.

import (
	"bytes"
	"context"
	"crypto/sha256"
	"fmt"
	"os"
	"os/exec"
	"path/filepath"
	"sort"
	"strings"
	"sync"
	"time"
)

type SolverCfg struct {
	Tier        string
	Timeout     time.Duration // per solver per obligation
	FirstTry    time.Duration // z3-new alone first
	AllSolvers  bool          // thorough: run every solver to completion and compare
	Workers     int
	Dir         string
	KeepQueries bool
}

type solverRun struct {
	name   string
	status string
	out    string
	secs   float64
}

func runSolver(ctx context.Context, name, file string, timeout time.Duration) solverRun {
	var cmd *exec.Cmd
	secs := int(timeout.Seconds())
	if secs < 1 {
		secs = 1
	}
	cctx, cancel := context.WithTimeout(ctx, timeout+2*time.Second)
	defer cancel()
	switch name {
	case "z3", "z3-new":
		cmd = exec.CommandContext(cctx, name, fmt.Sprintf("-T:%d", secs), "-smt2", file)
	case "z3/em", "z3-new/em":
		// E-matching only, no auto configuration (the usual setting of Boogie-style verifiers)
		cmd = exec.CommandContext(cctx, strings.TrimSuffix(name, "/em"), fmt.Sprintf("-T:%d", secs), "smt.auto_config=false", "smt.mbqi=false", "-smt2", file)
	case "cvc5":
		cmd = exec.CommandContext(cctx, "cvc5", "--lang=smt2", fmt.Sprintf("--tlimit=%d", secs*1000), file+".cvc5")
	}
	var out bytes.Buffer
	cmd.Stdout = &out
	cmd.Stderr = &out
	t0 := time.Now()
	_ = cmd.Run()
	r := solverRun{name: name, out: out.String(), secs: time.Since(t0).Seconds()}
	first := ""
	for _, l := range strings.Split(r.out, "\n") {
		l = strings.TrimSpace(l)
		if l == "" || strings.HasPrefix(l, "WARNING") {
			continue
		}
		first = l
		break
	}
	switch {
	case first == "unsat" || first == "sat" || first == "unknown":
		r.status = first
	case strings.Contains(first, "timeout") || cctx.Err() != nil:
		r.status = "timeout"
	default:
		r.status = "error"
	}
	return r
}

// prune keeps the assumptions in the cone of influence of the goal.
func dedupTerms(ts []*Term) []*Term {
	seen := map[*Term]bool{}
	var out []*Term
	for _, t := range ts {
		if !seen[t] {
			seen[t] = true
			out = append(out, t)
		}
	}
	return out
}

func pruneAssumes(assumes []*Term, goal *Term) []*Term {
	assumes = dedupTerms(assumes)
	type info struct {
		syms map[string]symInfo
	}
	infos := make([]map[string]symInfo, len(assumes))
	for i, a := range assumes {
		infos[i] = symsOf(a)
	}
	live := map[string]bool{}
	for n := range symsOf(goal) {
		live[n] = true
	}
	if len(live) == 0 {
		return assumes // "unreachable" goals need the whole path condition
	}
	// symbols that connect everything are not used for relevance
	generic := func(n string) bool {
		return n == "alloc0" || strings.HasPrefix(n, "alloc!")
	}
	keep := make([]bool, len(assumes))
	changed := true
	for changed {
		changed = false
		for i := range assumes {
			if keep[i] {
				continue
			}
			hit := false
			onlyGeneric := true
			for n := range infos[i] {
				if generic(n) {
					continue
				}
				onlyGeneric = false
				if live[n] {
					hit = true
					break
				}
			}
			if onlyGeneric && len(infos[i]) > 0 {
				hit = true
			}
			if len(infos[i]) == 0 {
				hit = true
			}
			if hit {
				keep[i] = true
				changed = true
				for n := range infos[i] {
					if !live[n] {
						live[n] = true
					}
				}
			}
		}
	}
	var out []*Term
	for i, a := range assumes {
		if keep[i] {
			out = append(out, a)
		}
	}
	return out
}

func toCVC5(q string) string {
	// cvc5 wants a logic, and produce-models before it
	var sb strings.Builder
	sb.WriteString("(set-option :produce-models true)\n(set-logic ALL)\n")
	for _, l := range strings.Split(q, "\n") {
		if strings.HasPrefix(l, "(set-option :produce-models") || strings.HasPrefix(l, "(set-logic") {
			continue
		}
		sb.WriteString(l + "\n")
	}
	return sb.String()
}

var queryCache sync.Map // sha -> *Obligation result copy

func solveOne(cfg *SolverCfg, o *Obligation, idx int) {
	if o.Status != "" {
		return
	}
	assumes := dedupTerms(o.Assumes)
	if !o.Cover {
		assumes = pruneAssumes(o.Assumes, o.Goal)
	}
	// opaque-first: try without the defining equations of named spec results (hidden definitions);
	// only if that fails is the full query used.
	if !o.Cover {
		var opaque []*Term
		dropped := 0
		for _, a := range assumes {
			if _, ok := specDefTerms.Load(a); ok {
				dropped++
				continue
			}
			opaque = append(opaque, a)
		}
		if dropped > 0 {
			oq := SMTQuery(pruneAssumes(opaque, o.Goal), o.Goal, "", false)
			ofile := filepath.Join(cfg.Dir, fmt.Sprintf("q%05d.opaque.smt2", idx))
			os.WriteFile(ofile, []byte(oq), 0o644)
			t0 := time.Now()
			cfgName := "z3-new"
			if strings.Contains(oq, "(forall") {
				cfgName = "z3/em"
			}
			r := runSolver(context.Background(), cfgName, ofile, cfg.FirstTry)
			if !cfg.KeepQueries {
				os.Remove(ofile)
			}
			if r.status == "unsat" {
				o.Status, o.Solver, o.Time = "unsat", r.name+"(opaque)", time.Since(t0).Seconds()
				o.Query = oq
				return
			}
		}
	}
	q := SMTQuery(assumes, o.Goal, "", true)
	o.Query = q
	sum := fmt.Sprintf("%x", sha256.Sum256([]byte(q)))
	if c, ok := queryCache.Load(sum); ok {
		co := c.(*Obligation)
		o.Status, o.Solver, o.Time, o.Model = co.Status, co.Solver+"(dup)", 0, co.Model
		return
	}
	file := filepath.Join(cfg.Dir, fmt.Sprintf("q%05d.smt2", idx))
	os.WriteFile(file, []byte(q), 0o644)
	os.WriteFile(file+".cvc5", []byte(toCVC5(q)), 0o644)
	defer func() {
		if !cfg.KeepQueries {
			os.Remove(file)
			os.Remove(file + ".cvc5")
		}
		queryCache.Store(sum, o)
	}()
	ctx := context.Background()
	t0 := time.Now()
	finish := func(r solverRun) {
		o.Status, o.Solver, o.Time = r.status, r.name, time.Since(t0).Seconds()
		if r.status == "sat" {
			if i := strings.Index(r.out, "sat\n"); i >= 0 {
				o.Model = r.out[i+4:]
			}
		}
	}
	if cfg.AllSolvers {
		var wg sync.WaitGroup
		rs := make([]solverRun, 3)
		rs = make([]solverRun, 5)
		for k, n := range []string{"z3-new", "z3", "cvc5", "z3/em", "z3-new/em"} {
			wg.Add(1)
			go func(k int, n string) {
				defer wg.Done()
				rs[k] = runSolver(ctx, n, file, cfg.Timeout)
			}(k, n)
		}
		wg.Wait()
		var sat, unsat *solverRun
		for k := range rs {
			if rs[k].status == "sat" && sat == nil {
				sat = &rs[k]
			}
			if rs[k].status == "unsat" && unsat == nil {
				unsat = &rs[k]
			}
		}
		switch {
		case sat != nil && unsat != nil:
			o.Status, o.Solver = "disagree", sat.name+"/"+unsat.name
			o.Time = time.Since(t0).Seconds()
		case unsat != nil:
			finish(*unsat)
			var names []string
			for _, r := range rs {
				if r.status == "unsat" {
					names = append(names, r.name)
				}
			}
			o.Solver = strings.Join(names, "+")
		case sat != nil:
			finish(*sat)
		default:
			finish(rs[0])
		}
		return
	}
	first := "z3-new"
	if strings.Contains(q, "(forall") {
		first = "z3/em"
	}
	r := runSolver(ctx, first, file, cfg.FirstTry)
	if r.status == "unsat" || r.status == "sat" {
		finish(r)
		return
	}
	// race the whole portfolio with the full timeout
	cctx, cancel := context.WithCancel(ctx)
	defer cancel()
	ch := make(chan solverRun, 5)
	names := []string{"cvc5", "z3", "z3-new", "z3/em", "z3-new/em"}
	for _, n := range names {
		go func(n string) { ch <- runSolver(cctx, n, file, cfg.Timeout) }(n)
	}
	var last solverRun
	got := 0
	for got < len(names) {
		rr := <-ch
		got++
		if rr.status == "unsat" || rr.status == "sat" {
			finish(rr)
			cancel()
			return
		}
		if last.name == "" || rr.status == "unknown" {
			last = rr
		}
	}
	finish(last)
}

func SolveAll(cfg *SolverCfg, obls []*Obligation) {
	if cfg.Dir == "" {
		d, err := os.MkdirTemp("", "govc-q")
		if err != nil {
			panic(err)
		}
		cfg.Dir = d
		if !cfg.KeepQueries {
			defer func() { os.RemoveAll(d); cfg.Dir = "" }()
		}
	}
	// larger goals first is not known; keep order but distribute
	idx := make([]int, len(obls))
	for i := range idx {
		idx[i] = i
	}
	sort.SliceStable(idx, func(a, b int) bool { return len(obls[idx[a]].Assumes) > len(obls[idx[b]].Assumes) })
	jobs := make(chan int)
	var wg sync.WaitGroup
	for w := 0; w < cfg.Workers; w++ {
		wg.Add(1)
		go func() {
			defer wg.Done()
			for i := range jobs {
				solveOne(cfg, obls[i], i)
			}
		}()
	}
	for _, i := range idx {
		jobs <- i
	}
	close(jobs)
	wg.Wait()
}

// discharged reports whether the obligation is settled in the expected direction.
func (o *Obligation) Discharged() bool {
	if o.Cover {
		return o.Status == "sat"
	}
	return o.Status == "unsat"
}

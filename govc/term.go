package main

// Term layer: hash-consed SMT terms with light simplification and an SMT-LIB 2 printer.

import (
	"fmt"
	"math/big"
	"sort"
	"strings"
	"sync"
)

// Sorts are kept as their SMT-LIB text.
const (
	SBool = "Bool"
	SInt  = "Int"
)

func SBV(w int) string        { return fmt.Sprintf("(_ BitVec %d)", w) }
func SArr(i, e string) string { return "(Array " + i + " " + e + ")" }
func isBV(s string) bool      { return strings.HasPrefix(s, "(_ BitVec") }
func isArr(s string) bool     { return strings.HasPrefix(s, "(Array ") }
func bvWidth(s string) int    { var w int; fmt.Sscanf(s, "(_ BitVec %d)", &w); return w }
func arrSorts(s string) (string, string) {
	// "(Array I E)" -> I, E with balanced parens
	body := s[len("(Array ") : len(s)-1]
	depth := 0
	for i, c := range body {
		switch c {
		case '(':
			depth++
		case ')':
			depth--
		case ' ':
			if depth == 0 {
				return body[:i], body[i+1:]
			}
		}
	}
	panic("bad array sort " + s)
}

type Term struct {
	Op   string // "const", "var", "app:<fn>", or SMT operator
	Args []*Term
	Sort string
	Name string   // for var / uninterpreted app / quantifier binder list
	Val  *big.Int // for const Int/BV; Bool const uses Val 0/1
	id   int
	// quantifier: Op "forall"/"exists", Bound vars in Args[:len-1], body Args[last]; Pats optional
	Pats      [][]*Term
	reindexed bool
}

var (
	internMu  sync.Mutex
	internTab = map[string]*Term{}
	internN   int
)

func intern(t *Term) *Term {
	var sb strings.Builder
	sb.WriteString(t.Op)
	sb.WriteByte('|')
	sb.WriteString(t.Sort)
	sb.WriteByte('|')
	sb.WriteString(t.Name)
	if t.Val != nil {
		sb.WriteByte('|')
		sb.WriteString(t.Val.String())
	}
	for _, a := range t.Args {
		fmt.Fprintf(&sb, ",%d", a.id)
	}
	for _, p := range t.Pats {
		sb.WriteString(";p")
		for _, a := range p {
			fmt.Fprintf(&sb, ",%d", a.id)
		}
	}
	k := sb.String()
	internMu.Lock()
	defer internMu.Unlock()
	if e, ok := internTab[k]; ok {
		return e
	}
	internN++
	t.id = internN
	internTab[k] = t
	return t
}

func mk(op, sort string, args ...*Term) *Term {
	return intern(&Term{Op: op, Sort: sort, Args: args})
}

var (
	TTrue  = intern(&Term{Op: "const", Sort: SBool, Val: big.NewInt(1)})
	TFalse = intern(&Term{Op: "const", Sort: SBool, Val: big.NewInt(0)})
)

func Bool(b bool) *Term {
	if b {
		return TTrue
	}
	return TFalse
}
func IntC(v int64) *Term { return IntBig(big.NewInt(v)) }
func IntBig(v *big.Int) *Term {
	return intern(&Term{Op: "const", Sort: SInt, Val: new(big.Int).Set(v)})
}
func BVC(v *big.Int, w int) *Term {
	m := new(big.Int).Lsh(big.NewInt(1), uint(w))
	x := new(big.Int).Mod(v, m)
	return intern(&Term{Op: "const", Sort: SBV(w), Val: x})
}
func Var(name, sort string) *Term { return intern(&Term{Op: "var", Sort: sort, Name: name}) }

// App is an application of an uninterpreted function.
func App(fn, sort string, args ...*Term) *Term {
	return intern(&Term{Op: "app", Name: fn, Sort: sort, Args: args})
}

func (t *Term) IsConst() bool { return t.Op == "const" }
func (t *Term) IsTrue() bool  { return t == TTrue }
func (t *Term) IsFalse() bool { return t == TFalse }

var freshMu sync.Mutex
var freshN = map[string]int{}

func Fresh(prefix, sort string) *Term {
	freshMu.Lock()
	freshN[prefix]++
	n := freshN[prefix]
	freshMu.Unlock()
	return Var(fmt.Sprintf("%s!%d", prefix, n), sort)
}

// ---- boolean builders ----

func Not(a *Term) *Term {
	switch {
	case a.IsTrue():
		return TFalse
	case a.IsFalse():
		return TTrue
	case a.Op == "not":
		return a.Args[0]
	}
	return mk("not", SBool, a)
}

func And(xs ...*Term) *Term {
	var out []*Term
	seen := map[*Term]bool{}
	for _, x := range xs {
		if x == nil || x.IsTrue() {
			continue
		}
		if x.IsFalse() {
			return TFalse
		}
		if x.Op == "and" {
			for _, y := range x.Args {
				if !seen[y] {
					seen[y] = true
					out = append(out, y)
				}
			}
			continue
		}
		if !seen[x] {
			seen[x] = true
			out = append(out, x)
		}
	}
	for _, x := range out {
		if seen[Not(x)] {
			return TFalse
		}
	}
	switch len(out) {
	case 0:
		return TTrue
	case 1:
		return out[0]
	}
	return mk("and", SBool, out...)
}

func Or(xs ...*Term) *Term {
	var out []*Term
	seen := map[*Term]bool{}
	for _, x := range xs {
		if x == nil || x.IsFalse() {
			continue
		}
		if x.IsTrue() {
			return TTrue
		}
		if x.Op == "or" {
			for _, y := range x.Args {
				if !seen[y] {
					seen[y] = true
					out = append(out, y)
				}
			}
			continue
		}
		if !seen[x] {
			seen[x] = true
			out = append(out, x)
		}
	}
	for _, x := range out {
		if seen[Not(x)] {
			return TTrue
		}
	}
	switch len(out) {
	case 0:
		return TFalse
	case 1:
		return out[0]
	}
	return mk("or", SBool, out...)
}

func Implies(a, b *Term) *Term {
	if a.IsTrue() {
		return b
	}
	if a.IsFalse() || b.IsTrue() {
		return TTrue
	}
	if b.IsFalse() {
		return Not(a)
	}
	return mk("=>", SBool, a, b)
}

func Iff(a, b *Term) *Term { return Eq(a, b) }

func Ite(c, a, b *Term) *Term {
	if c.IsTrue() {
		return a
	}
	if c.IsFalse() {
		return b
	}
	if a == b {
		return a
	}
	if a.Sort != b.Sort {
		panic(fmt.Sprintf("ite sort mismatch %s vs %s: %s / %s", a.Sort, b.Sort, a, b))
	}
	if a.Sort == SBool {
		if a.IsTrue() && b.IsFalse() {
			return c
		}
		if a.IsFalse() && b.IsTrue() {
			return Not(c)
		}
		if a.IsTrue() {
			return Or(c, b)
		}
		if b.IsFalse() {
			return And(c, a)
		}
		if a.IsFalse() {
			return And(Not(c), b)
		}
		if b.IsTrue() {
			return Or(Not(c), a)
		}
	}
	return mk("ite", a.Sort, c, a, b)
}

func Eq(a, b *Term) *Term {
	if a == b {
		return TTrue
	}
	if a.Sort != b.Sort {
		panic(fmt.Sprintf("eq sort mismatch %s vs %s: %s = %s", a.Sort, b.Sort, a, b))
	}
	if a.IsConst() && b.IsConst() {
		return Bool(a.Val.Cmp(b.Val) == 0)
	}
	if a.Sort == SBool {
		if a.IsTrue() {
			return b
		}
		if b.IsTrue() {
			return a
		}
		if a.IsFalse() {
			return Not(b)
		}
		if b.IsFalse() {
			return Not(a)
		}
	}
	// ite(c, k1, k2) == k  with distinct constants
	if a.Op == "ite" && b.IsConst() && a.Args[1].IsConst() && a.Args[2].IsConst() {
		return Ite(a.Args[0], Eq(a.Args[1], b), Eq(a.Args[2], b))
	}
	if b.Op == "ite" && a.IsConst() && b.Args[1].IsConst() && b.Args[2].IsConst() {
		return Ite(b.Args[0], Eq(b.Args[1], a), Eq(b.Args[2], a))
	}
	if a.id > b.id {
		a, b = b, a
	}
	return mk("=", SBool, a, b)
}

func Neq(a, b *Term) *Term { return Not(Eq(a, b)) }

// ---- integer builders (mathematical) ----

func iconst(t *Term) (*big.Int, bool) {
	if t.Op == "const" && t.Sort == SInt {
		return t.Val, true
	}
	return nil, false
}

func IAdd(a, b *Term) *Term {
	x, xo := iconst(a)
	y, yo := iconst(b)
	if xo && yo {
		return IntBig(new(big.Int).Add(x, y))
	}
	if xo && x.Sign() == 0 {
		return b
	}
	if yo && y.Sign() == 0 {
		return a
	}
	// (a + c1) + c2
	if yo && a.Op == "+" && len(a.Args) == 2 {
		if z, zo := iconst(a.Args[1]); zo {
			return IAdd(a.Args[0], IntBig(new(big.Int).Add(z, y)))
		}
	}
	if xo {
		return IAdd(b, a)
	}
	// (a - c1) + c2
	if yo && a.Op == "-" && len(a.Args) == 2 {
		if z, zo := iconst(a.Args[1]); zo {
			return IAdd(a.Args[0], IntBig(new(big.Int).Sub(y, z)))
		}
	}
	return mk("+", SInt, a, b)
}

func ISub(a, b *Term) *Term {
	x, xo := iconst(a)
	y, yo := iconst(b)
	if xo && yo {
		return IntBig(new(big.Int).Sub(x, y))
	}
	if yo {
		return IAdd(a, IntBig(new(big.Int).Neg(y)))
	}
	if a == b {
		return IntC(0)
	}
	// (b + c) - b = c ; (a + c) - b
	if a.Op == "+" && len(a.Args) == 2 && a.Args[0] == b {
		return a.Args[1]
	}
	return mk("-", SInt, a, b)
}

func INeg(a *Term) *Term { return ISub(IntC(0), a) }

func IMul(a, b *Term) *Term {
	x, xo := iconst(a)
	y, yo := iconst(b)
	if xo && yo {
		return IntBig(new(big.Int).Mul(x, y))
	}
	if xo && x.Sign() == 0 || yo && y.Sign() == 0 {
		return IntC(0)
	}
	if xo && x.Cmp(big.NewInt(1)) == 0 {
		return b
	}
	if yo && y.Cmp(big.NewInt(1)) == 0 {
		return a
	}
	if xo {
		a, b = b, a
	}
	return mk("*", SInt, a, b)
}

// IDiv / IMod are SMT-LIB Euclidean div/mod (divisor assumed non-zero by caller).
func IDiv(a, b *Term) *Term {
	x, xo := iconst(a)
	y, yo := iconst(b)
	if xo && yo && y.Sign() != 0 {
		q, _ := new(big.Int).DivMod(x, y, new(big.Int))
		return IntBig(q)
	}
	if yo && y.Cmp(big.NewInt(1)) == 0 {
		return a
	}
	return mk("div", SInt, a, b)
}

func IMod(a, b *Term) *Term {
	x, xo := iconst(a)
	y, yo := iconst(b)
	if xo && yo && y.Sign() != 0 {
		_, m := new(big.Int).DivMod(x, y, new(big.Int))
		return IntBig(m)
	}
	if yo && y.Cmp(big.NewInt(1)) == 0 {
		return IntC(0)
	}
	// (u mod m) mod n == u mod n when n divides m (SMT-LIB mod is Euclidean: exact for all integers u)
	if yo && y.Sign() > 0 && a.Op == "mod" && len(a.Args) == 2 {
		if m, mo := iconst(a.Args[1]); mo && m.Sign() > 0 && new(big.Int).Mod(m, y).Sign() == 0 {
			return IMod(a.Args[0], b)
		}
	}
	// ite(c, u, u mod m) mod n == u mod n when n divides m (the shape of an unsigned wrap-around)
	if yo && y.Sign() > 0 && a.Op == "ite" && len(a.Args) == 3 {
		u, w := a.Args[1], a.Args[2]
		if w.Op == "mod" && len(w.Args) == 2 && w.Args[0] == u {
			if m, mo := iconst(w.Args[1]); mo && m.Sign() > 0 && new(big.Int).Mod(m, y).Sign() == 0 {
				return IMod(u, b)
			}
		}
	}
	return mk("mod", SInt, a, b)
}

func ILe(a, b *Term) *Term {
	x, xo := iconst(a)
	y, yo := iconst(b)
	if xo && yo {
		return Bool(x.Cmp(y) <= 0)
	}
	if a == b {
		return TTrue
	}
	return mk("<=", SBool, a, b)
}
func ILt(a, b *Term) *Term {
	x, xo := iconst(a)
	y, yo := iconst(b)
	if xo && yo {
		return Bool(x.Cmp(y) < 0)
	}
	if a == b {
		return TFalse
	}
	return mk("<", SBool, a, b)
}
func IGe(a, b *Term) *Term { return ILe(b, a) }
func IGt(a, b *Term) *Term { return ILt(b, a) }

// ---- bit-vector builders ----

func bvconst(t *Term) (*big.Int, bool) {
	if t.Op == "const" && isBV(t.Sort) {
		return t.Val, true
	}
	return nil, false
}

func toSigned(v *big.Int, w int) *big.Int {
	h := new(big.Int).Lsh(big.NewInt(1), uint(w-1))
	if v.Cmp(h) >= 0 {
		return new(big.Int).Sub(v, new(big.Int).Lsh(big.NewInt(1), uint(w)))
	}
	return v
}

func BVBin(op string, a, b *Term) *Term {
	if a.Sort != b.Sort {
		panic(fmt.Sprintf("bv sort mismatch %s: %s vs %s (%s, %s)", op, a.Sort, b.Sort, a, b))
	}
	w := bvWidth(a.Sort)
	x, xo := bvconst(a)
	y, yo := bvconst(b)
	if xo && yo {
		r := new(big.Int)
		okc := true
		switch op {
		case "bvadd":
			r.Add(x, y)
		case "bvsub":
			r.Sub(x, y)
		case "bvmul":
			r.Mul(x, y)
		case "bvand":
			r.And(x, y)
		case "bvor":
			r.Or(x, y)
		case "bvxor":
			r.Xor(x, y)
		case "bvshl":
			if y.Cmp(big.NewInt(int64(w))) >= 0 {
				r.SetInt64(0)
			} else {
				r.Lsh(x, uint(y.Int64()))
			}
		case "bvlshr":
			if y.Cmp(big.NewInt(int64(w))) >= 0 {
				r.SetInt64(0)
			} else {
				r.Rsh(x, uint(y.Int64()))
			}
		default:
			okc = false
		}
		if okc {
			return BVC(r, w)
		}
	}
	zero := func(t *big.Int, ok bool) bool { return ok && t.Sign() == 0 }
	switch op {
	case "bvadd", "bvor", "bvxor":
		if zero(x, xo) {
			return b
		}
		if zero(y, yo) {
			return a
		}
	case "bvsub", "bvshl", "bvlshr", "bvashr":
		if zero(y, yo) {
			return a
		}
	case "bvand":
		if zero(x, xo) || zero(y, yo) {
			return BVC(big.NewInt(0), w)
		}
	}
	return mk(op, a.Sort, a, b)
}

func BVNot(a *Term) *Term { return mk("bvnot", a.Sort, a) }
func BVNeg(a *Term) *Term { return mk("bvneg", a.Sort, a) }

func BVCmp(op string, a, b *Term) *Term {
	if a.Sort != b.Sort {
		panic(fmt.Sprintf("bv cmp sort mismatch %s: %s vs %s", op, a.Sort, b.Sort))
	}
	w := bvWidth(a.Sort)
	x, xo := bvconst(a)
	y, yo := bvconst(b)
	if xo && yo {
		switch op {
		case "bvult":
			return Bool(x.Cmp(y) < 0)
		case "bvule":
			return Bool(x.Cmp(y) <= 0)
		case "bvslt":
			return Bool(toSigned(x, w).Cmp(toSigned(y, w)) < 0)
		case "bvsle":
			return Bool(toSigned(x, w).Cmp(toSigned(y, w)) <= 0)
		}
	}
	if a == b {
		return Bool(op == "bvule" || op == "bvsle")
	}
	return mk(op, SBool, a, b)
}

func BVExtract(hi, lo int, a *Term) *Term {
	if v, ok := bvconst(a); ok {
		r := new(big.Int).Rsh(v, uint(lo))
		return BVC(r, hi-lo+1)
	}
	if lo == 0 && hi == bvWidth(a.Sort)-1 {
		return a
	}
	return intern(&Term{Op: "extract", Name: fmt.Sprintf("%d %d", hi, lo), Sort: SBV(hi - lo + 1), Args: []*Term{a}})
}

func BVZeroExt(n int, a *Term) *Term {
	if n == 0 {
		return a
	}
	w := bvWidth(a.Sort)
	if v, ok := bvconst(a); ok {
		return BVC(v, w+n)
	}
	return intern(&Term{Op: "zero_extend", Name: fmt.Sprint(n), Sort: SBV(w + n), Args: []*Term{a}})
}

func BVSignExt(n int, a *Term) *Term {
	if n == 0 {
		return a
	}
	w := bvWidth(a.Sort)
	if v, ok := bvconst(a); ok {
		return BVC(toSigned(v, w), w+n)
	}
	return intern(&Term{Op: "sign_extend", Name: fmt.Sprint(n), Sort: SBV(w + n), Args: []*Term{a}})
}

// ---- arrays ----

func Select(a, i *Term) *Term {
	is, es := arrSorts(a.Sort)
	if is != i.Sort {
		panic(fmt.Sprintf("select index sort %s on %s", i.Sort, a.Sort))
	}
	// read over write
	cur := a
	for cur.Op == "store" {
		j := cur.Args[1]
		if j == i {
			return cur.Args[2]
		}
		if distinctConst(i, j) {
			cur = cur.Args[0]
			continue
		}
		break
	}
	return mk("select", es, cur, i)
}

func distinctConst(a, b *Term) bool {
	if a.IsConst() && b.IsConst() {
		return a.Val.Cmp(b.Val) != 0
	}
	// x+c1 vs x+c2
	ba, ca := splitAddConst(a)
	bb, cb := splitAddConst(b)
	if ba == bb && ca.Cmp(cb) != 0 {
		return true
	}
	return false
}

func splitAddConst(t *Term) (*Term, *big.Int) {
	if t.Sort == SInt {
		if t.Op == "+" && len(t.Args) == 2 {
			if c, ok := iconst(t.Args[1]); ok {
				return t.Args[0], c
			}
		}
		if c, ok := iconst(t); ok {
			return nil, c
		}
	}
	return t, big.NewInt(0)
}

func Store(a, i, v *Term) *Term {
	is, es := arrSorts(a.Sort)
	if is != i.Sort || es != v.Sort {
		panic(fmt.Sprintf("store sorts: array %s idx %s val %s", a.Sort, i.Sort, v.Sort))
	}
	if a.Op == "store" && a.Args[1] == i {
		return mk("store", a.Sort, a.Args[0], i, v)
	}
	return mk("store", a.Sort, a, i, v)
}

// ---- quantifiers ----

func Forall(bound []*Term, body *Term, pats ...[]*Term) *Term {
	if body.IsTrue() {
		return TTrue
	}
	if body.IsFalse() && len(bound) > 0 {
		return TFalse
	}
	args := append(append([]*Term{}, bound...), body)
	return intern(&Term{Op: "forall", Sort: SBool, Args: args, Pats: pats, Name: fmt.Sprint(len(bound))})
}

func Exists(bound []*Term, body *Term) *Term {
	if body.IsFalse() {
		return TFalse
	}
	args := append(append([]*Term{}, bound...), body)
	return intern(&Term{Op: "exists", Sort: SBool, Args: args, Name: fmt.Sprint(len(bound))})
}

// ---- substitution ----

func Subst(t *Term, m map[*Term]*Term) *Term {
	if len(m) == 0 {
		return t
	}
	memo := map[*Term]*Term{}
	var rec func(*Term) *Term
	rec = func(x *Term) *Term {
		if r, ok := m[x]; ok {
			return r
		}
		if len(x.Args) == 0 {
			return x
		}
		if r, ok := memo[x]; ok {
			return r
		}
		changed := false
		na := make([]*Term, len(x.Args))
		for i, a := range x.Args {
			na[i] = rec(a)
			if na[i] != a {
				changed = true
			}
		}
		var np [][]*Term
		for _, p := range x.Pats {
			q := make([]*Term, len(p))
			for i, a := range p {
				q[i] = rec(a)
				if q[i] != a {
					changed = true
				}
			}
			np = append(np, q)
		}
		r := x
		if changed {
			r = rebuild(x, na, np)
		}
		memo[x] = r
		return r
	}
	return rec(t)
}

// rebuild re-applies the smart constructors so substitution results are simplified.
func rebuild(x *Term, a []*Term, pats [][]*Term) *Term {
	switch x.Op {
	case "not":
		return Not(a[0])
	case "and":
		return And(a...)
	case "or":
		return Or(a...)
	case "=>":
		return Implies(a[0], a[1])
	case "ite":
		return Ite(a[0], a[1], a[2])
	case "=":
		return Eq(a[0], a[1])
	case "+":
		r := a[0]
		for _, y := range a[1:] {
			r = IAdd(r, y)
		}
		return r
	case "-":
		if len(a) == 2 {
			return ISub(a[0], a[1])
		}
	case "*":
		if len(a) == 2 {
			return IMul(a[0], a[1])
		}
	case "div":
		return IDiv(a[0], a[1])
	case "mod":
		return IMod(a[0], a[1])
	case "<=":
		return ILe(a[0], a[1])
	case "<":
		return ILt(a[0], a[1])
	case "select":
		return Select(a[0], a[1])
	case "store":
		return Store(a[0], a[1], a[2])
	case "bvadd", "bvsub", "bvmul", "bvand", "bvor", "bvxor", "bvshl", "bvlshr", "bvashr", "bvudiv", "bvurem":
		return BVBin(x.Op, a[0], a[1])
	case "bvult", "bvule", "bvslt", "bvsle":
		return BVCmp(x.Op, a[0], a[1])
	case "extract":
		var hi, lo int
		fmt.Sscanf(x.Name, "%d %d", &hi, &lo)
		return BVExtract(hi, lo, a[0])
	case "zero_extend":
		var n int
		fmt.Sscanf(x.Name, "%d", &n)
		return BVZeroExt(n, a[0])
	}
	return intern(&Term{Op: x.Op, Sort: x.Sort, Name: x.Name, Val: x.Val, Args: a, Pats: pats})
}

// ---- free symbols ----

type symInfo struct {
	name string
	sort string   // result sort
	args []string // argument sorts for uninterpreted functions
}

func collectSyms(t *Term, seen map[*Term]bool, out map[string]symInfo, bound map[*Term]bool) {
	if seen[t] {
		return
	}
	seen[t] = true
	switch t.Op {
	case "var":
		if !bound[t] {
			out[t.Name] = symInfo{name: t.Name, sort: t.Sort}
		}
	case "app":
		as := make([]string, len(t.Args))
		for i, a := range t.Args {
			as[i] = a.Sort
		}
		out[t.Name] = symInfo{name: t.Name, sort: t.Sort, args: as}
	case "forall", "exists":
		n := len(t.Args) - 1
		for _, b := range t.Args[:n] {
			bound[b] = true
		}
		// bound vars have unique names (fresh), so marking them globally is fine
		collectSyms(t.Args[n], seen, out, bound)
		for _, p := range t.Pats {
			for _, a := range p {
				collectSyms(a, seen, out, bound)
			}
		}
		return
	}
	for _, a := range t.Args {
		collectSyms(a, seen, out, bound)
	}
}

func symsOf(t *Term) map[string]symInfo {
	out := map[string]symInfo{}
	collectSyms(t, map[*Term]bool{}, out, map[*Term]bool{})
	return out
}

// ---- printing ----

func smtName(s string) string {
	ok := true
	for _, c := range s {
		if !(c >= 'a' && c <= 'z' || c >= 'A' && c <= 'Z' || c >= '0' && c <= '9' || strings.ContainsRune("_.!$@%^&*-+<>/?~", c)) {
			ok = false
			break
		}
	}
	if ok && len(s) > 0 && !(s[0] >= '0' && s[0] <= '9') {
		return s
	}
	return "|" + strings.ReplaceAll(s, "|", "!") + "|"
}

type printer struct {
	refs  map[*Term]int
	names map[*Term]string
	defs  []string
	bound map[*Term]bool
}

// countRefs counts references to each node (DAG-aware), not descending twice.
func (p *printer) countRefs(t *Term) {
	p.refs[t]++
	if p.refs[t] > 1 {
		return
	}
	for _, a := range t.Args {
		p.countRefs(a)
	}
	for _, pt := range t.Pats {
		for _, a := range pt {
			p.countRefs(a)
		}
	}
}

func (p *printer) hasBound(t *Term, memo map[*Term]bool) bool {
	if v, ok := memo[t]; ok {
		return v
	}
	r := false
	if t.Op == "var" && p.bound[t] {
		r = true
	}
	for _, a := range t.Args {
		if p.hasBound(a, memo) {
			r = true
		}
	}
	memo[t] = r
	return r
}

func constStr(t *Term) string {
	switch {
	case t.Sort == SBool:
		if t.Val.Sign() != 0 {
			return "true"
		}
		return "false"
	case t.Sort == SInt:
		if t.Val.Sign() < 0 {
			return "(- " + new(big.Int).Neg(t.Val).String() + ")"
		}
		return t.Val.String()
	default:
		return fmt.Sprintf("(_ bv%s %d)", t.Val.String(), bvWidth(t.Sort))
	}
}

func (p *printer) str(t *Term, hb map[*Term]bool) string {
	if n, ok := p.names[t]; ok {
		return n
	}
	var s string
	switch t.Op {
	case "const":
		return constStr(t)
	case "var":
		return smtName(t.Name)
	case "app":
		if len(t.Args) == 0 {
			return smtName(t.Name)
		}
		parts := []string{smtName(t.Name)}
		for _, a := range t.Args {
			parts = append(parts, p.str(a, hb))
		}
		s = "(" + strings.Join(parts, " ") + ")"
	case "extract":
		s = "((_ extract " + t.Name + ") " + p.str(t.Args[0], hb) + ")"
	case "zero_extend", "sign_extend":
		s = "((_ " + t.Op + " " + t.Name + ") " + p.str(t.Args[0], hb) + ")"
	case "forall", "exists":
		n := len(t.Args) - 1
		var bs []string
		for _, b := range t.Args[:n] {
			bs = append(bs, "("+smtName(b.Name)+" "+b.Sort+")")
		}
		body := p.str(t.Args[n], hb)
		if len(t.Pats) > 0 {
			var ps []string
			for _, pt := range t.Pats {
				var xs []string
				for _, a := range pt {
					xs = append(xs, p.str(a, hb))
				}
				ps = append(ps, ":pattern ("+strings.Join(xs, " ")+")")
			}
			body = "(! " + body + " " + strings.Join(ps, " ") + ")"
		}
		s = "(" + t.Op + " (" + strings.Join(bs, " ") + ") " + body + ")"
	default:
		parts := []string{t.Op}
		for _, a := range t.Args {
			parts = append(parts, p.str(a, hb))
		}
		s = "(" + strings.Join(parts, " ") + ")"
	}
	// share large multiply-referenced closed subterms through define-fun
	if p.refs[t] > 1 && len(s) > 40 && !p.hasBound(t, hb) {
		name := fmt.Sprintf("t!%d", len(p.defs))
		p.defs = append(p.defs, fmt.Sprintf("(define-fun %s () %s %s)", name, t.Sort, s))
		p.names[t] = name
		return name
	}
	return s
}

func markBound(t *Term, seen map[*Term]bool, bound map[*Term]bool) {
	if seen[t] {
		return
	}
	seen[t] = true
	if t.Op == "forall" || t.Op == "exists" {
		for _, b := range t.Args[:len(t.Args)-1] {
			bound[b] = true
		}
	}
	for _, a := range t.Args {
		markBound(a, seen, bound)
	}
}

func (t *Term) String() string {
	p := &printer{refs: map[*Term]int{}, names: map[*Term]string{}, bound: map[*Term]bool{}}
	return p.str(t, map[*Term]bool{})
}

// SMTQuery renders "assumptions /\ not goal" as a complete SMT-LIB script.
func SMTQuery(assumps []*Term, goal *Term, logic string, wantModel bool) string {
	p := &printer{refs: map[*Term]int{}, names: map[*Term]string{}, bound: map[*Term]bool{}}
	all := append(append([]*Term{}, assumps...), goal)
	seenB := map[*Term]bool{}
	for _, a := range all {
		p.countRefs(a)
		markBound(a, seenB, p.bound)
	}
	syms := map[string]symInfo{}
	seen := map[*Term]bool{}
	for _, a := range all {
		collectSyms(a, seen, syms, p.bound)
	}
	var names []string
	for n := range syms {
		names = append(names, n)
	}
	sort.Strings(names)
	var sb strings.Builder
	if wantModel {
		sb.WriteString("(set-option :produce-models true)\n")
	}
	if logic != "" {
		sb.WriteString("(set-logic " + logic + ")\n")
	}
	for _, n := range names {
		si := syms[n]
		if si.args == nil {
			fmt.Fprintf(&sb, "(declare-fun %s () %s)\n", smtName(n), si.sort)
		} else {
			fmt.Fprintf(&sb, "(declare-fun %s (%s) %s)\n", smtName(n), strings.Join(si.args, " "), si.sort)
		}
	}
	hb := map[*Term]bool{}
	var asserts []string
	for _, a := range assumps {
		asserts = append(asserts, "(assert "+p.str(a, hb)+")")
	}
	g := "(assert (not " + p.str(goal, hb) + "))"
	for _, d := range p.defs {
		sb.WriteString(d + "\n")
	}
	for _, a := range asserts {
		sb.WriteString(a + "\n")
	}
	sb.WriteString(g + "\n(check-sat)\n")
	if wantModel {
		sb.WriteString("(get-model)\n")
	}
	return sb.String()
}

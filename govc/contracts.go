package main

// Contract files: //@ comment blocks in zz_verif_contracts.go (build tag verif), keyed by
// function name and loop ordinal.

import (
	"bufio"
	"fmt"
	"os"
	"regexp"
	"strconv"
	"strings"
)

type Clause struct {
	Label    string
	Text     string
	Expr     *Expr
	Props    []string // restricts the clause to these properties (from label prefix "C08.x")
	Internal bool     // checked in the function itself, not exported to callers (may mention ghosts)
	File     string
	Line     int
}

type LoopSpec struct {
	Invariants []*Clause
	Assumes    []*Clause // assumed at the head after the havoc, never checked (listed as assumptions)
	Steps      []*Clause // checked at every back edge, not assumed at the head (may use ghosts taken at "loop:K")
	Decreases  *Clause
	Unroll     int     // >0: unroll with unwinding assertion
	Bounded    int     // >0: unroll without unwinding assertion (bounded stand-in)
	Modifies   []*Expr // extra havoc targets
}

type Param struct {
	Name string
	Type string
}

type FuncContract struct {
	Kind        string // func, extern, lemma
	Name        string // "ReadVarint", "(*Reader).read", extern: "io.Reader.Read"
	Pkg         string
	Mode        Mode
	ModeSet     bool
	Props       []string
	Requires    []*Clause
	Ensures     []*Clause
	Modifies    []*Expr
	ModAll      bool
	Loops       map[int]*LoopSpec
	Inline      bool
	Instantiate [][2]string // (param, function name): verify once per entry with the func-typed param bound
	Lets        map[string]*Expr
	LetOrder    []string
	Params      []Param // extern / spec
	Results     []Param
	Assumes     []string // free-text assumptions surfaced in evidence
	Effects     []string
	NoPanic     bool // sweep-only: no functional clauses expected
	Lemma       *Clause
	MayPanic    []string
	Pure        bool
	Ghosts      []*GhostStmt
	File        string
	Line        int
	Trusted     string
	Reveal      []string
	Uses        []*Expr              // lemma applications: call expressions L(args)
	Sites       map[string][]*Clause // call-site ghost clauses: key "assert:<callee>#k"
}

type GhostStmt struct {
	At   string // anchor: "call:<callee>#k:before|after", "entry", "return"
	Text string
	Stmt *Expr // assignment encoded as binary "=" … kept simple: lhs name, rhs expr
	LHS  string
}

type SpecFunc struct {
	Name     string
	Params   []Param
	Result   string
	Body     *Expr
	Text     string
	Uninterp bool // declared only
	Opaque   bool // uninterpreted unless the function under verification reveals it
	Pkg      string
}

type MonitorSpec struct {
	Type     string // "Writer"
	Lock     string // "mu"
	Protects []string
	Atomic   []string  // protected fields that are read with atomic loads outside the lock
	Chans    []string  // protected channel fields whose closed state belongs to the monitor
	Invs     []*Clause // hold whenever the lock is free
	Pubs     []*Clause // publication invariant: holds at every instant, also mid critical section
	Guars    []*Clause // two-state guarantee of every atomic step: old(self.f) vs self.f
	Relies   []*Clause // assumed about other goroutines only (protocol assumptions, listed in the evidence)
	Leaf     bool      // no transport-blocking action while held (C04)
	Pkg      string
}

type ObjInv struct {
	Type string
	Invs []*Clause
	Pkg  string
}

type ContractSet struct {
	Funcs      map[string]*FuncContract // key pkgpath + "." + name
	Externs    map[string]*FuncContract // key full name e.g. "io.Reader.Read", "(*strings.Builder).Grow"
	Specs      map[string]*SpecFunc
	Lemmas     []*FuncContract
	Monitors   []*MonitorSpec
	ObjInvs    map[string]*ObjInv
	Files      []string
	RawScan    []string             // assume/trusted/extern lines for the evidence
	Axioms     []*Clause            // assumed facts about package-level variables of dependencies
	GhostMaps  map[string]*SpecFunc // ghost maps: name -> (params, result type)
	Immutables []*ImmutableDecl
}

func NewContractSet() *ContractSet {
	return &ContractSet{Funcs: map[string]*FuncContract{}, Externs: map[string]*FuncContract{},
		Specs: map[string]*SpecFunc{}, ObjInvs: map[string]*ObjInv{}}
}

var subKeywords = map[string]bool{"mode": true, "props": true, "inline": true, "unroll": true, "requires": true,
	"ensures": true, "modifies": true, "loop": true, "let": true, "assumes": true, "effect": true,
	"nopanic": true, "maypanic": true, "pure": true, "trusted": true, "invariant": true, "protects": true,
	"ghost": true, "site": true, "bounded": true, "reveal": true, "instantiate": true, "use": true, "check": true, "atomic": true, "chans": true, "published": true, "guarantee": true, "rely": true, "leaf": true}

var labelRe = regexp.MustCompile(`^\[([^\]]+)\]\s*`)

type rawLine struct {
	indent int
	text   string
	line   int
}

func readContractLines(path string) ([]rawLine, error) {
	f, err := os.Open(path)
	if err != nil {
		return nil, err
	}
	defer f.Close()
	var out []rawLine
	sc := bufio.NewScanner(f)
	sc.Buffer(make([]byte, 1<<20), 1<<20)
	ln := 0
	for sc.Scan() {
		ln++
		s := sc.Text()
		t := strings.TrimLeft(s, " \t")
		if !strings.HasPrefix(t, "//@") {
			continue
		}
		body := t[3:]
		// strip trailing comment "// ..." that is outside strings/chars
		body = stripTrailingComment(body)
		trim := strings.TrimLeft(body, " ")
		if trim == "" {
			continue
		}
		out = append(out, rawLine{indent: len(body) - len(trim), text: strings.TrimRight(trim, " \t"), line: ln})
	}
	return out, sc.Err()
}

func stripTrailingComment(s string) string {
	inStr, inChr := false, false
	for i := 0; i+1 < len(s); i++ {
		c := s[i]
		switch {
		case c == '\\' && (inStr || inChr):
			i++
		case c == '"' && !inChr:
			inStr = !inStr
		case c == '\'' && !inStr:
			inChr = !inChr
		case c == '/' && s[i+1] == '/' && !inStr && !inChr:
			return s[:i]
		}
	}
	return s
}

func firstWord(s string) (string, string) {
	s = strings.TrimLeft(s, " ")
	i := strings.IndexAny(s, " \t")
	if i < 0 {
		return s, ""
	}
	return s[:i], strings.TrimLeft(s[i:], " \t")
}

func mkClause(text, file string, line int) (*Clause, error) {
	c := &Clause{File: file, Line: line}
	if m := labelRe.FindStringSubmatch(text); m != nil {
		c.Label = m[1]
		text = text[len(m[0]):]
		// label prefix "C08.x" or "C08,C13.x" scopes the clause
		if i := strings.Index(c.Label, "."); i > 0 {
			ok := true
			var ps []string
			for _, p := range strings.Split(c.Label[:i], ",") {
				if !regexp.MustCompile(`^C[0-9]{2,3}$`).MatchString(p) {
					ok = false
				}
				ps = append(ps, p)
			}
			if ok {
				c.Props = ps
			}
		}
	}
	c.Text = text
	e, err := ParseExpr(text)
	if err != nil {
		return nil, fmt.Errorf("%s:%d: %v", file, line, err)
	}
	c.Expr = e
	return c, nil
}

func parseParams(s string) []Param {
	s = strings.TrimSpace(s)
	if s == "" {
		return nil
	}
	var out []Param
	depth := 0
	start := 0
	parts := []string{}
	for i, c := range s {
		switch c {
		case '(', '[':
			depth++
		case ')', ']':
			depth--
		case ',':
			if depth == 0 {
				parts = append(parts, s[start:i])
				start = i + 1
			}
		}
	}
	parts = append(parts, s[start:])
	for _, p := range parts {
		n, t := firstWord(strings.TrimSpace(p))
		out = append(out, Param{n, strings.TrimSpace(t)})
	}
	// Go style "a, b int": propagate types backwards
	for i := len(out) - 2; i >= 0; i-- {
		if out[i].Type == "" {
			out[i].Type = out[i+1].Type
		}
	}
	return out
}

// splitSig splits "name(params) (results)" or "name(params) T".
func splitSig(s string) (name, params, results string, err error) {
	i := strings.Index(s, "(")
	// name may itself start with "(*T)."
	if strings.HasPrefix(s, "(") {
		j := strings.Index(s, ")")
		k := strings.Index(s[j:], "(")
		if k < 0 {
			return "", "", "", fmt.Errorf("bad signature %q", s)
		}
		i = j + k
	}
	if i < 0 {
		return strings.TrimSpace(s), "", "", nil
	}
	name = strings.TrimSpace(s[:i])
	depth := 0
	j := i
	for ; j < len(s); j++ {
		if s[j] == '(' {
			depth++
		}
		if s[j] == ')' {
			depth--
			if depth == 0 {
				break
			}
		}
	}
	params = s[i+1 : j]
	rest := strings.TrimSpace(s[j+1:])
	if strings.HasPrefix(rest, "(") && strings.HasSuffix(rest, ")") {
		rest = rest[1 : len(rest)-1]
	}
	return name, params, rest, nil
}

func (cs *ContractSet) LoadFile(path, pkg string) error {
	lines, err := readContractLines(path)
	if err != nil {
		return err
	}
	cs.Files = append(cs.Files, path)
	// merge continuation lines
	var merged []rawLine
	for _, l := range lines {
		w, _ := firstWord(l.text)
		top := l.indent <= 1
		if !top && !subKeywords[w] && len(merged) > 0 {
			merged[len(merged)-1].text += " " + l.text
			continue
		}
		if top && !map[string]bool{"func": true, "extern": true, "spec": true, "lemma": true, "monitor": true,
			"objinv": true, "uninterp": true, "opaque": true, "axiom": true, "ghostmap": true, "immutable": true}[w] {
			if len(merged) > 0 {
				merged[len(merged)-1].text += " " + l.text
				continue
			}
			return fmt.Errorf("%s:%d: unknown top-level item %q", path, l.line, w)
		}
		merged = append(merged, l)
	}
	var cur *FuncContract
	var curMon *MonitorSpec
	var curInv *ObjInv
	var curImm []*ImmutableDecl
	for _, l := range merged {
		w, rest := firstWord(l.text)
		if l.indent <= 1 {
			cur, curMon, curInv, curImm = nil, nil, nil, nil
			switch w {
			case "func":
				fc := &FuncContract{Kind: "func", Name: strings.TrimSpace(rest), Pkg: pkg, Loops: map[int]*LoopSpec{},
					Lets: map[string]*Expr{}, File: path, Line: l.line, Sites: map[string][]*Clause{}}
				key := pkg + "." + fc.Name
				if _, dup := cs.Funcs[key]; dup {
					return fmt.Errorf("%s:%d: duplicate contract for %s", path, l.line, key)
				}
				cs.Funcs[key] = fc
				cur = fc
			case "extern":
				name, ps, rs, err := splitSig(rest)
				if err != nil {
					return fmt.Errorf("%s:%d: %v", path, l.line, err)
				}
				fc := &FuncContract{Kind: "extern", Name: name, Pkg: pkg, Params: parseParams(ps), Results: parseParams(rs),
					Loops: map[int]*LoopSpec{}, Lets: map[string]*Expr{}, File: path, Line: l.line, Sites: map[string][]*Clause{}}
				if old, dup := cs.Externs[name]; dup && old.Pkg == pkg {
					return fmt.Errorf("%s:%d: duplicate extern %s", path, l.line, name)
				}
				cs.Externs[pkg+"|"+name] = fc
				if _, ok := cs.Externs[name]; !ok {
					cs.Externs[name] = fc
				}
				cs.RawScan = append(cs.RawScan, fmt.Sprintf("extern %s (%s)", name, pkg))
				cur = fc
			case "spec", "uninterp", "opaque":
				opaque := false
				if w == "opaque" {
					opaque = true
					w, rest = firstWord(rest)
					if w != "spec" {
						return fmt.Errorf("%s:%d: opaque spec expected", path, l.line)
					}
				}
				i := strings.Index(rest, "=")
				sig := rest
				body := ""
				if w == "spec" {
					// the first '=' that is not part of ==, <=, >=, != and is at depth 0 after the signature
					i = findDefEq(rest)
					if i < 0 {
						return fmt.Errorf("%s:%d: spec without body", path, l.line)
					}
					sig, body = rest[:i], rest[i+1:]
				}
				name, ps, rs, err := splitSig(strings.TrimSpace(sig))
				if err != nil {
					return fmt.Errorf("%s:%d: %v", path, l.line, err)
				}
				sf := &SpecFunc{Name: name, Params: parseParams(ps), Result: strings.TrimSpace(rs), Text: body, Pkg: pkg, Uninterp: w == "uninterp", Opaque: opaque}
				if w == "spec" {
					e, err := ParseExpr(body)
					if err != nil {
						return fmt.Errorf("%s:%d: %v", path, l.line, err)
					}
					sf.Body = e
				}
				if _, dup := cs.Specs[name]; dup {
					return fmt.Errorf("%s:%d: duplicate spec %s", path, l.line, name)
				}
				cs.Specs[name] = sf
			case "lemma":
				name, ps, _, err := splitSig(rest)
				if err != nil {
					return fmt.Errorf("%s:%d: %v", path, l.line, err)
				}
				fc := &FuncContract{Kind: "lemma", Name: name, Pkg: pkg, Params: parseParams(ps), Loops: map[int]*LoopSpec{},
					Lets: map[string]*Expr{}, File: path, Line: l.line, Sites: map[string][]*Clause{}}
				cs.Lemmas = append(cs.Lemmas, fc)
				cur = fc
			case "immutable":
				for _, f := range strings.Split(rest, ",") {
					parts := strings.SplitN(strings.TrimSpace(f), ".", 2)
					if len(parts) != 2 {
						return fmt.Errorf("%s:%d: immutable T.field expected", path, l.line)
					}
					d := &ImmutableDecl{Pkg: pkg, Type: parts[0], Field: parts[1], File: path, Line: l.line, Prefix: pkg + "." + parts[0] + "." + parts[1]}
					cs.Immutables = append(cs.Immutables, d)
					curImm = append(curImm, d)
				}
			case "ghostmap":
				name, ps, rs, err := splitSig(strings.TrimSpace(rest))
				if err != nil {
					return fmt.Errorf("%s:%d: %v", path, l.line, err)
				}
				if cs.GhostMaps == nil {
					cs.GhostMaps = map[string]*SpecFunc{}
				}
				cs.GhostMaps[name] = &SpecFunc{Name: name, Params: parseParams(ps), Result: strings.TrimSpace(rs), Pkg: pkg}
			case "axiom":
				c, err := mkClause(rest, path, l.line)
				if err != nil {
					return err
				}
				cs.Axioms = append(cs.Axioms, c)
				cs.RawScan = append(cs.RawScan, "axiom "+rest)
			case "monitor":
				// monitor T.mu
				parts := strings.SplitN(strings.TrimSpace(rest), ".", 2)
				if len(parts) != 2 {
					return fmt.Errorf("%s:%d: monitor T.lock expected", path, l.line)
				}
				curMon = &MonitorSpec{Type: parts[0], Lock: parts[1], Pkg: pkg}
				cs.Monitors = append(cs.Monitors, curMon)
			case "objinv":
				curInv = &ObjInv{Type: strings.TrimSpace(rest), Pkg: pkg}
				cs.ObjInvs[pkg+"."+curInv.Type] = curInv
			}
			continue
		}
		// sub-lines
		if curImm != nil {
			if w == "props" {
				for _, d := range curImm {
					d.Props = append(d.Props, strings.Fields(rest)...)
				}
				continue
			}
			return fmt.Errorf("%s:%d: only props is allowed under immutable", path, l.line)
		}
		if curMon != nil {
			switch w {
			case "protects":
				for _, f := range strings.Split(rest, ",") {
					curMon.Protects = append(curMon.Protects, strings.TrimSpace(f))
				}
			case "atomic":
				for _, f := range strings.Split(rest, ",") {
					curMon.Atomic = append(curMon.Atomic, strings.TrimSpace(f))
				}
			case "chans":
				for _, f := range strings.Split(rest, ",") {
					curMon.Chans = append(curMon.Chans, strings.TrimSpace(f))
				}
			case "leaf":
				curMon.Leaf = true
			case "rely":
				c, err := mkClause(rest, path, l.line)
				if err != nil {
					return err
				}
				curMon.Relies = append(curMon.Relies, c)
				cs.RawScan = append(cs.RawScan, fmt.Sprintf("rely (%s.%s) %s", curMon.Type, curMon.Lock, rest))
			case "invariant", "published", "guarantee":
				c, err := mkClause(rest, path, l.line)
				if err != nil {
					return err
				}
				switch w {
				case "invariant":
					curMon.Invs = append(curMon.Invs, c)
				case "published":
					curMon.Pubs = append(curMon.Pubs, c)
				default:
					curMon.Guars = append(curMon.Guars, c)
				}
			default:
				return fmt.Errorf("%s:%d: unexpected %q in monitor", path, l.line, w)
			}
			continue
		}
		if curInv != nil {
			if w != "invariant" {
				return fmt.Errorf("%s:%d: unexpected %q in objinv", path, l.line, w)
			}
			c, err := mkClause(rest, path, l.line)
			if err != nil {
				return err
			}
			curInv.Invs = append(curInv.Invs, c)
			continue
		}
		if cur == nil {
			return fmt.Errorf("%s:%d: clause outside of an item", path, l.line)
		}
		switch w {
		case "mode":
			cur.ModeSet = true
			switch strings.TrimSpace(rest) {
			case "bv":
				cur.Mode = ModeBV
			case "int":
				cur.Mode = ModeInt
			default:
				return fmt.Errorf("%s:%d: bad mode", path, l.line)
			}
		case "instantiate":
			parts := strings.Fields(rest)
			if len(parts) != 2 {
				return fmt.Errorf("%s:%d: instantiate <param> <function>", path, l.line)
			}
			cur.Instantiate = append(cur.Instantiate, [2]string{parts[0], parts[1]})
		case "props":
			cur.Props = strings.Fields(rest)
		case "inline":
			cur.Inline = true
		case "use":
			e, err := ParseExpr(rest)
			if err != nil {
				return fmt.Errorf("%s:%d: %v", path, l.line, err)
			}
			if e.Kind != "call" {
				return fmt.Errorf("%s:%d: use LEMMA(args)", path, l.line)
			}
			cur.Uses = append(cur.Uses, e)
		case "reveal":
			for _, f := range strings.Split(rest, ",") {
				cur.Reveal = append(cur.Reveal, strings.TrimSpace(f))
			}
		case "pure":
			cur.Pure = true
		case "nopanic":
			cur.NoPanic = true
		case "maypanic":
			cur.MayPanic = append(cur.MayPanic, rest)
		case "trusted":
			cur.Trusted = rest
			cs.RawScan = append(cs.RawScan, fmt.Sprintf("trusted %s: %s", cur.Name, rest))
		case "assumes":
			cur.Assumes = append(cur.Assumes, strings.Trim(rest, `"`))
			cs.RawScan = append(cs.RawScan, fmt.Sprintf("assumes (%s) %s", cur.Name, rest))
		case "effect":
			cur.Effects = append(cur.Effects, strings.Fields(rest)...)
		case "requires", "ensures", "check":
			c, err := mkClause(rest, path, l.line)
			if err != nil {
				return err
			}
			if w == "requires" {
				cur.Requires = append(cur.Requires, c)
			} else {
				c.Internal = w == "check"
				cur.Ensures = append(cur.Ensures, c)
			}
		case "modifies":
			if strings.TrimSpace(rest) == "*" {
				cur.ModAll = true
				break
			}
			for _, part := range splitTop(rest) {
				e, err := ParseExpr(part)
				if err != nil {
					return fmt.Errorf("%s:%d: %v", path, l.line, err)
				}
				cur.Modifies = append(cur.Modifies, e)
			}
		case "let":
			i := strings.Index(rest, "=")
			if i < 0 {
				return fmt.Errorf("%s:%d: let NAME = expr", path, l.line)
			}
			name := strings.TrimSpace(rest[:i])
			e, err := ParseExpr(rest[i+1:])
			if err != nil {
				return fmt.Errorf("%s:%d: %v", path, l.line, err)
			}
			// earlier lets may be used by later ones
			e = substExpr(e, cur.Lets)
			cur.Lets[name] = e
			cur.LetOrder = append(cur.LetOrder, name)
		case "unroll", "bounded":
			f := strings.Fields(rest)
			if len(f) != 2 {
				return fmt.Errorf("%s:%d: unroll LOOP N", path, l.line)
			}
			k, _ := strconv.Atoi(f[0])
			n, _ := strconv.Atoi(f[1])
			ls := cur.loop(k)
			if w == "unroll" {
				ls.Unroll = n
			} else {
				ls.Bounded = n
			}
		case "loop":
			f := strings.Fields(rest)
			if len(f) < 2 {
				return fmt.Errorf("%s:%d: loop K invariant|decreases ...", path, l.line)
			}
			k, err := strconv.Atoi(f[0])
			if err != nil {
				return fmt.Errorf("%s:%d: loop ordinal: %v", path, l.line, err)
			}
			ls := cur.loop(k)
			_, r1 := firstWord(rest)
			kw, body := firstWord(r1)
			switch kw {
			case "invariant":
				c, err := mkClause(body, path, l.line)
				if err != nil {
					return err
				}
				ls.Invariants = append(ls.Invariants, c)
			case "assume":
				c, err := mkClause(body, path, l.line)
				if err != nil {
					return err
				}
				ls.Assumes = append(ls.Assumes, c)
				cs.RawScan = append(cs.RawScan, fmt.Sprintf("loop assume (%s loop %d) %s", cur.Name, k, body))
			case "step":
				c, err := mkClause(body, path, l.line)
				if err != nil {
					return err
				}
				ls.Steps = append(ls.Steps, c)
			case "decreases":
				c, err := mkClause(body, path, l.line)
				if err != nil {
					return err
				}
				ls.Decreases = c
			case "unroll":
				ls.Unroll, _ = strconv.Atoi(strings.TrimSpace(body))
			case "bounded":
				ls.Bounded, _ = strconv.Atoi(strings.TrimSpace(body))
			case "modifies":
				for _, part := range splitTop(body) {
					e, err := ParseExpr(part)
					if err != nil {
						return fmt.Errorf("%s:%d: %v", path, l.line, err)
					}
					ls.Modifies = append(ls.Modifies, e)
				}
			default:
				return fmt.Errorf("%s:%d: unknown loop clause %q", path, l.line, kw)
			}
		case "site":
			// site <anchor> assert|assume [label] expr
			anchor, r1 := firstWord(rest)
			kind, body := firstWord(r1)
			c, err := mkClause(body, path, l.line)
			if err != nil {
				return err
			}
			cur.Sites[kind+":"+anchor] = append(cur.Sites[kind+":"+anchor], c)
		case "ghost":
			// ghost <anchor> name = expr
			anchor, r1 := firstWord(rest)
			i := strings.Index(r1, "=")
			if i < 0 {
				return fmt.Errorf("%s:%d: ghost ANCHOR name = expr", path, l.line)
			}
			e, err := ParseExpr(r1[i+1:])
			if err != nil {
				return fmt.Errorf("%s:%d: %v", path, l.line, err)
			}
			cur.Ghosts = append(cur.Ghosts, &GhostStmt{At: anchor, LHS: strings.TrimSpace(r1[:i]), Stmt: e, Text: r1})
		default:
			return fmt.Errorf("%s:%d: unknown clause %q", path, l.line, w)
		}
	}
	return nil
}

func (fc *FuncContract) loop(k int) *LoopSpec {
	if fc.Loops[k] == nil {
		fc.Loops[k] = &LoopSpec{}
	}
	return fc.Loops[k]
}

// findDefEq finds the '=' separating a spec signature from its body.
func findDefEq(s string) int {
	depth := 0
	for i := 0; i < len(s); i++ {
		switch s[i] {
		case '(', '[':
			depth++
		case ')', ']':
			depth--
		case '=':
			if depth == 0 {
				prev := byte(' ')
				if i > 0 {
					prev = s[i-1]
				}
				next := byte(' ')
				if i+1 < len(s) {
					next = s[i+1]
				}
				if prev != '=' && prev != '<' && prev != '>' && prev != '!' && next != '=' {
					return i
				}
			}
		}
	}
	return -1
}

func splitTop(s string) []string {
	var out []string
	depth := 0
	start := 0
	for i, c := range s {
		switch c {
		case '(', '[':
			depth++
		case ')', ']':
			depth--
		case ',':
			if depth == 0 {
				out = append(out, strings.TrimSpace(s[start:i]))
				start = i + 1
			}
		}
	}
	if t := strings.TrimSpace(s[start:]); t != "" {
		out = append(out, t)
	}
	return out
}

package main

// Evaluation of contract expressions to symbolic values in a given state.

import (
	"fmt"
	"go/constant"
	"go/token"
	"go/types"
	"golang.org/x/tools/go/ssa"
	"math/big"
	"regexp"
	"strings"
	"sync"
)

type Env struct {
	X       *Exec
	St      *State
	Old     *State
	Vars    map[string]Value
	OldVars map[string]Value
	Bound   map[string]Value
	FC      *FuncContract
	PkgPath string
	depth   int
	inOld   bool
	// Head: the state at the head of the loop whose back edge is being checked (loop step clauses)
	Head     *State
	HeadVars map[string]Value
}

type evalErr string

func (x *Exec) fail(format string, a ...interface{}) {
	panic(evalErr(fmt.Sprintf(format, a...)))
}

func (x *Exec) evalBool(env *Env, e *Expr) *Term {
	if env.FC != nil && len(env.FC.Lets) > 0 {
		e = substExpr(e, env.FC.Lets)
	}
	v := x.eval(env, e)
	sc, ok := v.(Scalar)
	if !ok || sc.T.Sort != SBool {
		x.fail("clause %s is not boolean (%T)", e, v)
	}
	return sc.T
}

func (x *Exec) evalIdx(env *Env, e *Expr) *Term {
	if env.FC != nil && len(env.FC.Lets) > 0 {
		e = substExpr(e, env.FC.Lets)
	}
	v := x.eval(env, e)
	switch s := v.(type) {
	case Scalar:
		return env.St.A.Convert(s.T, s.Ty, tyInt)
	case ConstV:
		return env.St.A.Const(s.V, tyInt)
	}
	x.fail("integer expected: %s", e)
	return nil
}

var tokenLSS = token.LSS

var binTok = map[string]token.Token{"+": token.ADD, "-": token.SUB, "*": token.MUL, "/": token.QUO, "%": token.REM,
	"&": token.AND, "|": token.OR, "^": token.XOR, "<<": token.SHL, ">>": token.SHR, "&^": token.AND_NOT,
	"==": token.EQL, "!=": token.NEQ, "<": token.LSS, "<=": token.LEQ, ">": token.GTR, ">=": token.GEQ}

var basicByName = map[string]types.Type{
	"int": types.Typ[types.Int], "int8": types.Typ[types.Int8], "int16": types.Typ[types.Int16], "int32": types.Typ[types.Int32],
	"int64": types.Typ[types.Int64], "uint": types.Typ[types.Uint], "uint8": types.Typ[types.Uint8], "byte": types.Typ[types.Uint8],
	"uint16": types.Typ[types.Uint16], "uint32": types.Typ[types.Uint32], "uint64": types.Typ[types.Uint64],
	"bool": types.Typ[types.Bool], "uintptr": types.Typ[types.Uintptr], "rune": types.Typ[types.Int32],
}

// tyMath is the type of ghost integers: unbounded, no wrap-around (int mode only).
var tyMath = types.NewNamed(types.NewTypeName(0, nil, "mathint", nil), types.Typ[types.Int64], nil)

func isMath(t types.Type) bool { return t == tyMath }

func mathOp(tok token.Token, a, b *Term) *Term {
	switch tok {
	case token.ADD:
		return IAdd(a, b)
	case token.SUB:
		return ISub(a, b)
	case token.MUL:
		return IMul(a, b)
	case token.QUO:
		return IDiv(a, b)
	case token.REM:
		return IMod(a, b)
	}
	return nil
}

// refType is the type given to quantified references.
var refType = types.NewPointer(types.NewStruct(nil, nil))

func (x *Exec) lookupType(env *Env, name string) types.Type {
	if t, ok := basicByName[name]; ok {
		return t
	}
	if name == "ref" {
		return refType
	}
	if name == "mathint" {
		return tyMath
	}
	if name == "string" {
		return tyString
	}
	if name == "error" {
		return types.Universe.Lookup("error").Type()
	}
	if strings.HasPrefix(name, "[]") {
		if et := x.lookupType(env, name[2:]); et != nil {
			return types.NewSlice(et)
		}
		return nil
	}
	ptr := false
	if strings.HasPrefix(name, "*") {
		ptr = true
		name = name[1:]
	}
	pkgPath := env.PkgPath
	tn := name
	if i := strings.Index(name, "."); i >= 0 {
		// imported package by name
		if pk := x.P.ByPath[env.PkgPath]; pk != nil {
			for path, imp := range pk.Imports {
				if imp.Name == name[:i] {
					pkgPath = path
				}
			}
		}
		tn = name[i+1:]
	}
	if pk := x.P.ByPath[pkgPath]; pk != nil {
		if o := pk.Types.Scope().Lookup(tn); o != nil {
			if _, ok := o.(*types.TypeName); ok {
				if ptr {
					return types.NewPointer(o.Type())
				}
				return o.Type()
			}
		}
	}
	return nil
}

func (x *Exec) eval(env *Env, e *Expr) Value {
	st := env.St
	A := st.A
	switch e.Kind {
	case "num":
		v, ok := new(big.Int).SetString(e.Name, 0)
		if !ok {
			x.fail("bad number %s", e.Name)
		}
		return ConstV{V: v}
	case "char":
		return ConstV{V: big.NewInt(int64(e.Name[0]))}
	case "str":
		return st.constString(e.Name)
	case "ident":
		return x.evalIdent(env, e.Name)
	case "unary":
		v := x.eval(env, e.Args[0])
		switch e.Op {
		case "!":
			return Scalar{Not(x.asBool(v, e)), tyBool}
		case "-":
			if c, ok := v.(ConstV); ok {
				return ConstV{V: new(big.Int).Neg(c.V)}
			}
			s := v.(Scalar)
			return Scalar{A.Neg(s.T, s.Ty), s.Ty}
		case "^":
			s := v.(Scalar)
			return Scalar{A.BitNot(s.T, s.Ty), s.Ty}
		}
	case "binary":
		return x.evalBinary(env, e)
	case "sel":
		return x.evalSel(env, e)
	case "index":
		base := x.eval(env, e.Args[0])
		if sc, ok := base.(Scalar); ok {
			if mt, isMap := sc.Ty.Underlying().(*types.Map); isMap {
				kv := x.materialize(env, x.eval(env, e.Args[1]))
				v, _ := x.mapLookup(st, sc.T, mt, x.mapKeyTerm(st, kv, mt.Key()))
				return v
			}
		}
		idx := x.idxOf(env, x.eval(env, e.Args[1]))
		switch b := base.(type) {
		case SliceV:
			return st.memLoad(b.Arr, A.IdxAdd(b.Off, idx), b.Elem)
		case StringV:
			t := Select(Select(x.strBytes(st), b.Arr), A.IdxAdd(b.Off, idx))
			if A.Mode == ModeInt {
				st.Assume(And(ILe(IntC(0), t), ILe(t, IntC(255))))
			}
			return Scalar{t, tyByte}
		}
		x.fail("index of %T in %s", base, e)
	case "slice":
		base := x.eval(env, e.Args[0])
		var lo, hi *Term
		if e.Args[1] != nil {
			lo = x.idxOf(env, x.eval(env, e.Args[1]))
		} else {
			lo = A.Idx(0)
		}
		switch b := base.(type) {
		case SliceV:
			if e.Args[2] != nil {
				hi = x.idxOf(env, x.eval(env, e.Args[2]))
			} else {
				hi = b.Len
			}
			return SliceV{Arr: b.Arr, Off: A.IdxAdd(b.Off, lo), Len: A.IdxSub(hi, lo), Cap: A.IdxSub(b.Cap, lo), Elem: b.Elem}
		case StringV:
			if e.Args[2] != nil {
				hi = x.idxOf(env, x.eval(env, e.Args[2]))
			} else {
				hi = b.Len
			}
			return StringV{b.Arr, A.IdxAdd(b.Off, lo), A.IdxSub(hi, lo)}
		}
		x.fail("slice of %T", base)
	case "call":
		return x.evalCall(env, e)
	case "quant":
		return x.evalQuant(env, e)
	}
	x.fail("cannot evaluate %s", e)
	return nil
}

func (x *Exec) asBool(v Value, e *Expr) *Term {
	s, ok := v.(Scalar)
	if !ok || s.T.Sort != SBool {
		x.fail("boolean expected in %s (got %T)", e, v)
	}
	return s.T
}

func (x *Exec) idxOf(env *Env, v Value) *Term {
	switch s := v.(type) {
	case ConstV:
		return env.St.A.Const(s.V, tyInt)
	case Scalar:
		return env.St.A.Convert(s.T, s.Ty, tyInt)
	}
	x.fail("index expected, got %T", v)
	return nil
}

func (x *Exec) evalIdent(env *Env, name string) Value {
	switch name {
	case "true":
		return Scalar{TTrue, tyBool}
	case "false":
		return Scalar{TFalse, tyBool}
	case "nil":
		return nil
	}
	if v, ok := env.Bound[name]; ok {
		return v
	}
	if v, ok := env.Vars[name]; ok {
		return v
	}
	if v, ok := env.St.Ghost[name]; ok {
		return v
	}
	// package-level constant
	if pk := x.P.ByPath[env.PkgPath]; pk != nil {
		if o := pk.Types.Scope().Lookup(name); o != nil {
			if c, ok := o.(*types.Const); ok {
				return x.constObj(env, c)
			}
			if _, ok := o.(*types.Var); ok {
				return env.St.heapLoad(IntC(1), "global:"+env.PkgPath+"."+name, o.Type())
			}
		}
	}
	x.fail("unknown identifier %q (in %s)", name, x.funcLabel())
	return nil
}

func (x *Exec) constObj(env *Env, c *types.Const) Value {
	switch c.Val().Kind() {
	case constant.Int:
		v := constToBig(c.Val())
		if b := basicOf(c.Type()); b != nil && b.Info()&types.IsUntyped == 0 {
			return Scalar{env.St.A.Const(v, c.Type()), c.Type()}
		}
		return ConstV{V: v}
	case constant.Bool:
		return Scalar{Bool(constant.BoolVal(c.Val())), tyBool}
	case constant.String:
		return env.St.constString(constant.StringVal(c.Val()))
	}
	x.fail("unsupported constant %s", c.Name())
	return nil
}

func (x *Exec) evalSel(env *Env, e *Expr) Value {
	// pkg.Const
	if e.Args[0].Kind == "ident" {
		if _, isVar := env.Vars[e.Args[0].Name]; !isVar {
			if _, isB := env.Bound[e.Args[0].Name]; !isB {
				if pk := x.P.ByPath[env.PkgPath]; pk != nil {
					for path, imp := range pk.Imports {
						if imp.Name == e.Args[0].Name {
							if o := imp.Types.Scope().Lookup(e.Name); o != nil {
								if c, ok := o.(*types.Const); ok {
									return x.constObj(env, c)
								}
								if _, ok := o.(*types.Var); ok {
									return env.St.heapLoad(IntC(1), "global:"+path+"."+e.Name, o.Type())
								}
							}
						}
					}
				}
			}
		}
	}
	base := x.eval(env, e.Args[0])
	return x.fieldOf(env, base, e.Name, e)
}

func (x *Exec) fieldOf(env *Env, base Value, name string, e *Expr) Value {
	st := env.St
	switch b := base.(type) {
	case StructV:
		stt := b.Ty.Underlying().(*types.Struct)
		for i := 0; i < stt.NumFields(); i++ {
			if stt.Field(i).Name() == name {
				return b.Fields[i]
			}
		}
		x.fail("no field %s in %s", name, b.Ty)
	case Scalar, PtrV:
		if p, ok := b.(PtrV); ok && p.Cell != nil {
			v := x.load(st, p, p.HTy, nil)
			return x.fieldOf(env, v, name, e)
		}
		ref, root, stt := x.structPtr(st, b)
		if ref == nil {
			x.fail("selector .%s on non-struct pointer (%#v) in %s", name, b, e)
		}
		for i := 0; i < stt.NumFields(); i++ {
			if stt.Field(i).Name() == name {
				ft := stt.Field(i).Type()
				if _, isStruct := ft.Underlying().(*types.Struct); isStruct {
					// keep as interior pointer so nested selectors stay cheap; load lazily
					return PtrV{Ref: ref, Root: root + "." + name, HTy: ft}
				}
				return st.heapLoad(ref, root+"."+name, ft)
			}
		}
		x.fail("no field %s in %s", name, root)
	}
	x.fail("selector .%s on %T in %s", name, base, e)
	return nil
}

// materialize turns an interior struct pointer produced by fieldOf into a struct value.
func (x *Exec) materialize(env *Env, v Value) Value {
	if p, ok := v.(PtrV); ok && p.Ref != nil && p.Root != "" {
		if _, isStruct := p.HTy.Underlying().(*types.Struct); isStruct {
			return env.St.heapLoad(p.Ref, p.Root, p.HTy)
		}
	}
	return v
}

func (x *Exec) evalBinary(env *Env, e *Expr) Value {
	st := env.St
	A := st.A
	switch e.Op {
	case "&&":
		l := x.asBool(x.eval(env, e.Args[0]), e)
		if l.IsFalse() {
			return Scalar{TFalse, tyBool}
		}
		return Scalar{And(l, x.asBool(x.eval(env, e.Args[1]), e)), tyBool}
	case "||":
		l := x.asBool(x.eval(env, e.Args[0]), e)
		if l.IsTrue() {
			return Scalar{TTrue, tyBool}
		}
		return Scalar{Or(l, x.asBool(x.eval(env, e.Args[1]), e)), tyBool}
	case "==>":
		l := x.asBool(x.eval(env, e.Args[0]), e)
		if l.IsFalse() {
			return Scalar{TTrue, tyBool}
		}
		return Scalar{Implies(l, x.asBool(x.eval(env, e.Args[1]), e)), tyBool}
	case "<==>":
		return Scalar{Eq(x.asBool(x.eval(env, e.Args[0]), e), x.asBool(x.eval(env, e.Args[1]), e)), tyBool}
	}
	l := x.eval(env, e.Args[0])
	r := x.eval(env, e.Args[1])
	if !((e.Op == "==" || e.Op == "!=") && (l == nil || r == nil)) {
		// comparisons with nil look at the pointer, everything else at the value
		if lp, ok := l.(PtrV); !(ok && lp.Ref != nil && (e.Op == "==" || e.Op == "!=") && isPtrLike(r)) {
			l = x.materialize(env, l)
		}
		if rp, ok := r.(PtrV); !(ok && rp.Ref != nil && (e.Op == "==" || e.Op == "!=") && isPtrLike(l)) {
			r = x.materialize(env, r)
		}
	}
	tok := binTok[e.Op]
	// constants
	lc, lok := l.(ConstV)
	rc, rok := r.(ConstV)
	if lok && rok {
		return foldConst(tok, lc.V, rc.V, x)
	}
	if e.Op == "==" || e.Op == "!=" {
		eq := x.specEqual(env, l, r, e)
		if e.Op == "!=" {
			eq = Not(eq)
		}
		return Scalar{eq, tyBool}
	}
	var ty types.Type
	var lt, rt *Term
	switch {
	case lok:
		rs := x.asScalar(r, e)
		ty = rs.Ty
		lt, rt = A.Const(lc.V, ty), rs.T
	case rok:
		ls := x.asScalar(l, e)
		ty = ls.Ty
		if tok == token.SHL || tok == token.SHR {
			lt, rt = ls.T, A.Const(rc.V, tyUint64)
			res, _ := A.BinOp(tok, lt, rt, ty, tyUint64)
			return Scalar{res, ty}
		}
		lt, rt = ls.T, A.Const(rc.V, ty)
	default:
		ls, rs := x.asScalar(l, e), x.asScalar(r, e)
		ty = ls.Ty
		lt, rt = ls.T, rs.T
		if tok == token.SHL || tok == token.SHR {
			res, _ := A.BinOp(tok, lt, rt, ty, rs.Ty)
			return Scalar{res, ty}
		}
		if lt.Sort != rt.Sort {
			// mixed widths in specs: widen to the larger (both unsigned or both signed assumed)
			if isBV(lt.Sort) && isBV(rt.Sort) {
				if bvWidth(lt.Sort) < bvWidth(rt.Sort) {
					lt = A.Convert(lt, ls.Ty, rs.Ty)
					ty = rs.Ty
				} else {
					rt = A.Convert(rt, rs.Ty, ls.Ty)
				}
			} else {
				x.fail("operand sorts differ in %s: %s vs %s", e, lt.Sort, rt.Sort)
			}
		}
	}
	if A.Mode == ModeInt {
		// Go "int" arithmetic in specifications is mathematical (lengths and indices never wrap:
		// they are bounded by the object-size assumption); sized and unsigned types keep Go's wrap.
		isPlainInt := func(v Value) bool {
			switch s := v.(type) {
			case Scalar:
				if isMath(s.Ty) {
					return true
				}
				b, ok := s.Ty.(*types.Basic)
				return ok && b.Kind() == types.Int
			case ConstV:
				return true
			}
			return false
		}
		lm := isPlainInt(l) && isPlainInt(r)
		if ls, ok := l.(Scalar); ok && isMath(ls.Ty) {
			lm = true
		}
		if rs, ok := r.(Scalar); ok && isMath(rs.Ty) {
			lm = true
		}
		if lm {
			if m := mathOp(tok, lt, rt); m != nil {
				return Scalar{m, tyMath}
			}
		}
	}
	res, _ := A.BinOp(tok, lt, rt, ty, ty)
	switch tok {
	case token.LSS, token.LEQ, token.GTR, token.GEQ:
		return Scalar{res, tyBool}
	}
	return Scalar{res, ty}
}

func (x *Exec) asScalar(v Value, e *Expr) Scalar {
	s, ok := v.(Scalar)
	if !ok {
		x.fail("scalar operand expected in %s (got %T)", e, v)
	}
	return s
}

func foldConst(tok token.Token, a, b *big.Int, x *Exec) Value {
	r := new(big.Int)
	switch tok {
	case token.ADD:
		return ConstV{V: r.Add(a, b)}
	case token.SUB:
		return ConstV{V: r.Sub(a, b)}
	case token.MUL:
		return ConstV{V: r.Mul(a, b)}
	case token.QUO:
		return ConstV{V: r.Quo(a, b)}
	case token.REM:
		return ConstV{V: r.Rem(a, b)}
	case token.SHL:
		return ConstV{V: r.Lsh(a, uint(b.Int64()))}
	case token.SHR:
		return ConstV{V: r.Rsh(a, uint(b.Int64()))}
	case token.AND:
		return ConstV{V: r.And(a, b)}
	case token.OR:
		return ConstV{V: r.Or(a, b)}
	case token.XOR:
		return ConstV{V: r.Xor(a, b)}
	case token.EQL:
		return Scalar{Bool(a.Cmp(b) == 0), tyBool}
	case token.NEQ:
		return Scalar{Bool(a.Cmp(b) != 0), tyBool}
	case token.LSS:
		return Scalar{Bool(a.Cmp(b) < 0), tyBool}
	case token.LEQ:
		return Scalar{Bool(a.Cmp(b) <= 0), tyBool}
	case token.GTR:
		return Scalar{Bool(a.Cmp(b) > 0), tyBool}
	case token.GEQ:
		return Scalar{Bool(a.Cmp(b) >= 0), tyBool}
	}
	x.fail("constant fold %s", tok)
	return nil
}

// specEqual is == in contracts: structural on structs, header equality on slices, content on strings.
func (x *Exec) specEqual(env *Env, l, r Value, e *Expr) *Term {
	st := env.St
	if l == nil && r == nil {
		return TTrue
	}
	if l == nil {
		l, r = r, l
	}
	switch a := l.(type) {
	case Scalar:
		switch b := r.(type) {
		case nil:
			return Eq(a.T, IntC(0))
		case ConstV:
			return Eq(a.T, st.A.Const(b.V, a.Ty))
		case Scalar:
			if a.T.Sort != b.T.Sort {
				x.fail("== on different sorts in %s: %s vs %s", e, a.T.Sort, b.T.Sort)
			}
			return Eq(a.T, b.T)
		case PtrV:
			return Eq(a.T, st.scalarTerm(b, a.Ty))
		}
	case ConstV:
		if b, ok := r.(Scalar); ok {
			return Eq(st.A.Const(a.V, b.Ty), b.T)
		}
	case SliceV:
		switch b := r.(type) {
		case nil:
			return Eq(a.Arr, IntC(0))
		case SliceV:
			return And(Eq(a.Arr, b.Arr), Eq(a.Off, b.Off), Eq(a.Len, b.Len), Eq(a.Cap, b.Cap))
		}
	case StringV:
		if b, ok := r.(StringV); ok {
			return x.strEq(st, a, b)
		}
	case StructV:
		if b, ok := r.(StructV); ok {
			var cs []*Term
			for i := range a.Fields {
				cs = append(cs, x.specEqual(env, a.Fields[i], b.Fields[i], e))
			}
			return And(cs...)
		}
	case PtrV:
		switch b := r.(type) {
		case nil:
			if a.Ref != nil {
				return Eq(a.Ref, IntC(0))
			}
		case Scalar:
			return Eq(st.scalarTerm(a, b.Ty), b.T)
		case PtrV:
			if a.Ref != nil && b.Ref != nil {
				if a.Root == b.Root {
					return Eq(a.Ref, b.Ref)
				}
				return TFalse // interior pointers to different fields are different addresses
			}
		}
	case TupleV:
		if b, ok := r.(TupleV); ok && len(a) == len(b) {
			var cs []*Term
			for i := range a {
				cs = append(cs, x.specEqual(env, a[i], b[i], e))
			}
			return And(cs...)
		}
	}
	x.fail("cannot compare %T and %T in %s", l, r, e)
	return nil
}

func (x *Exec) evalQuant(env *Env, e *Expr) Value {
	st := env.St
	ne := *env
	ne.Bound = map[string]Value{}
	for k, v := range env.Bound {
		ne.Bound[k] = v
	}
	var bound []*Term
	var ranges []*Term
	for _, b := range e.Binds {
		ty := x.lookupType(env, b.Type)
		if ty == nil {
			x.fail("unknown type %s in quantifier", b.Type)
		}
		v := Fresh("q$"+b.Name, st.A.SortOf(ty))
		bound = append(bound, v)
		ne.Bound[b.Name] = Scalar{v, ty}
		if st.A.Mode == ModeInt && isIntType(ty) {
			ranges = append(ranges, st.A.RangeInv(v, ty))
		}
	}
	// evaluation of the body may add assumptions (type invariants of loaded values) that mention the
	// bound variables; keep them local by guarding: collect and re-quantify.
	saved := st.Assumes
	body := x.asBool(x.eval(&ne, e.Args[0]), e)
	var local []*Term
	for n := st.Assumes; n != saved && n != nil; n = n.parent {
		local = append(local, n.t)
	}
	st.Assumes = saved
	bset := map[*Term]bool{}
	for _, b := range bound {
		bset[b] = true
	}
	for _, t := range local {
		// facts about values loaded at quantified indices (byte ranges etc.) are dropped: keeping them
		// as hypotheses inside an assumed quantifier would block its use
		if !mentions(t, bset) {
			st.Assume(t)
		}
	}
	if e.Op == "forall" {
		return Scalar{Forall(bound, Implies(And(ranges...), body), quantPatterns(bound, body)...), tyBool}
	}
	return Scalar{Exists(bound, And(append(ranges, body)...)), tyBool}
}

func mentions(t *Term, set map[*Term]bool) bool {
	seen := map[*Term]bool{}
	var rec func(*Term) bool
	rec = func(u *Term) bool {
		if set[u] {
			return true
		}
		if seen[u] {
			return false
		}
		seen[u] = true
		for _, a := range u.Args {
			if rec(a) {
				return true
			}
		}
		return false
	}
	return rec(t)
}

func (x *Exec) evalCall(env *Env, e *Expr) Value {
	st := env.St
	A := st.A
	fn := e.Args[0]
	args := e.Args[1:]
	if fn.Kind == "ident" {
		// a function-typed parameter or local bound to a known function (see "instantiate"): the call is
		// evaluated by running the (branch-free) body, e.g. node(ent) for node = (*entry).globalList
		if fv, ok := env.Vars[fn.Name].(FuncV); ok && fv.Fn != nil {
			vals := make([]Value, 0, len(args)+1)
			if fv.Recv != nil {
				vals = append(vals, fv.Recv)
			}
			vals = append(vals, fv.Bind...)
			for _, a := range args {
				vals = append(vals, x.materialize(env, x.eval(env, a)))
			}
			tmp := *st
			tmp.Frame = &Frame{Fn: x.Fn, Regs: map[ssa.Value]Value{}}
			x.specEval++
			r, ok := x.runStraight(&tmp, fv.Fn, vals)
			x.specEval--
			if ok {
				return r
			}
			x.fail("cannot evaluate the call of %s in %s (not a branch-free function)", fv.Fn, e)
		}
	}
	if fn.Kind == "ident" {
		switch fn.Name {
		case "old":
			if env.Old == nil {
				x.fail("old() outside a two-state context")
			}
			ne := *env
			ne.St = env.Old
			if env.OldVars != nil {
				ne.Vars = env.OldVars
			}
			ne.inOld = true
			// assumptions made while evaluating in the old state are facts: keep them on the current path
			save := env.Old.Assumes
			env.Old.Assumes = env.St.Assumes
			v := x.materialize(&ne, x.eval(&ne, args[0]))
			env.St.Assumes = env.Old.Assumes
			env.Old.Assumes = save
			return v
		case "athead":
			// athead(e): the value of e at the head of the loop, i.e. at the start of the iteration whose
			// back edge is being checked (memory, heap, locals and ghosts as they were there)
			if env.Head == nil {
				x.fail("athead() outside a loop step clause")
			}
			ne := *env
			ne.St = env.Head
			ne.Vars = env.HeadVars
			save := env.Head.Assumes
			env.Head.Assumes = env.St.Assumes
			v := x.materialize(&ne, x.eval(&ne, args[0]))
			env.St.Assumes = env.Head.Assumes
			env.Head.Assumes = save
			return v
		case "memathead":
			// memathead(e): e with the *current* locals, heap and ghosts, but memory contents (slice
			// elements) as they were at the head of the loop: "the bytes this slice denoted at the start
			// of the iteration"
			if env.Head == nil {
				x.fail("memathead() outside a loop step clause")
			}
			ne := *env
			st2 := *env.St
			st2.Mems = env.Head.Mems
			st2.HLog = env.Head.HLog
			ne.St = &st2
			v := x.materialize(&ne, x.eval(&ne, args[0]))
			env.St.Assumes = st2.Assumes
			return v
		case "len":
			switch v := x.eval(env, args[0]).(type) {
			case SliceV:
				return Scalar{v.Len, tyInt}
			case StringV:
				return Scalar{v.Len, tyInt}
			case nil:
				return Scalar{st.A.Idx(0), tyInt}
			}
			x.fail("len of non-slice in %s", e)
		case "cap":
			if v, ok := x.eval(env, args[0]).(SliceV); ok {
				return Scalar{v.Cap, tyInt}
			}
			x.fail("cap of non-slice in %s", e)
		case "arr":
			switch v := x.eval(env, args[0]).(type) {
			case SliceV:
				return Scalar{v.Arr, refType}
			case StringV:
				return Scalar{v.Arr, refType}
			}
			x.fail("arr of non-slice in %s", e)
		case "off":
			switch v := x.eval(env, args[0]).(type) {
			case SliceV:
				return Scalar{v.Off, tyInt}
			case StringV:
				return Scalar{v.Off, tyInt}
			}
			x.fail("off of non-slice in %s", e)
		case "sameSlice":
			a, aok := x.eval(env, args[0]).(SliceV)
			b, bok := x.eval(env, args[1]).(SliceV)
			if !aok || !bok {
				x.fail("sameSlice needs slices: %s", e)
			}
			return Scalar{And(Eq(a.Arr, b.Arr), Eq(a.Off, b.Off), Eq(a.Len, b.Len)), tyBool}
		case "ite":
			c := x.asBool(x.eval(env, args[0]), e)
			if c.IsTrue() {
				return x.eval(env, args[1])
			}
			if c.IsFalse() {
				return x.eval(env, args[2])
			}
			a := x.eval(env, args[1])
			b := x.eval(env, args[2])
			return x.iteSpec(env, c, a, b, e)
		case "fresh":
			// the backing array / object did not exist at entry
			switch v := x.eval(env, args[0]).(type) {
			case SliceV:
				return Scalar{ILt(env.Old.allocBound(), v.Arr), tyBool}
			case Scalar:
				return Scalar{ILt(env.Old.allocBound(), v.T), tyBool}
			}
			x.fail("fresh of %s", e)
		case "bytesEq":
			// equal length and equal contents
			a := x.eval(env, args[0])
			b := x.eval(env, args[1])
			return Scalar{x.bytesEq(env, a, b, e), tyBool}
		case "isNil":
			return Scalar{x.specEqual(env, x.eval(env, args[0]), nil, e), tyBool}
		case "haskey":
			// haskey(m, k): the map m has an entry for key k
			mv := x.eval(env, args[0])
			sc, ok := mv.(Scalar)
			if !ok {
				x.fail("haskey: map expected in %s", e)
			}
			mt, ok := sc.Ty.Underlying().(*types.Map)
			if !ok {
				x.fail("haskey: map expected in %s", e)
			}
			kv := x.materialize(env, x.eval(env, args[1]))
			if c, ok := kv.(ConstV); ok {
				kv = Scalar{st.A.Const(c.V, mt.Key()), mt.Key()}
			}
			_, present := x.mapLookup(st, sc.T, mt, x.mapKeyTerm(st, kv, mt.Key()))
			return Scalar{present, tyBool}
		case "isBytes":
			// isBytes(e): the interface value e holds a []byte
			v := x.asScalar(x.eval(env, args[0]), e)
			bt := types.NewSlice(types.Universe.Lookup("byte").Type())
			return Scalar{And(Neq(v.T, IntC(0)), Eq(App("dyntype", SInt, v.T), IntC(x.typeTag(bt)))), tyBool}
		case "unboxBytes":
			// unboxBytes(e): the []byte held by the interface value e (meaningful under isBytes(e))
			v := x.asScalar(x.eval(env, args[0]), e)
			bt := types.NewSlice(types.Universe.Lookup("byte").Type())
			return st.heapLoad(v.T, "box:"+typeKey(bt), bt)
		case "held":
			return Scalar{x.heldTerm(env, args[0]), tyBool}
		case "typeIs":
			v := x.asScalar(x.eval(env, args[0]), e)
			tn := args[1].Name
			if args[1].Kind == "sel" {
				tn = args[1].Args[0].Name + "." + args[1].Name
			}
			ty := x.lookupType(env, tn)
			if ty == nil {
				x.fail("unknown type in typeIs: %s", e)
			}
			return Scalar{And(Neq(v.T, IntC(0)), Eq(App("dyntype", SInt, v.T), IntC(x.typeTag(ty)))), tyBool}
		case "hasMethods":
			// hasMethods(e, "interface{Code() uint64}"): e is non-nil and its dynamic type implements the interface
			v := x.asScalar(x.eval(env, args[0]), e)
			x.registerIface(st, args[1].Name)
			return Scalar{And(Neq(v.T, IntC(0)), App("implements$"+args[1].Name, SBool, App("dyntype", SInt, v.T))), tyBool}
		case "methodU64", "methodErr", "methodStr", "methodBool":
			v := x.asScalar(x.eval(env, args[0]), e)
			var rt types.Type
			switch fn.Name {
			case "methodU64":
				rt = tyUint64
			case "methodErr":
				rt = types.Universe.Lookup("error").Type()
			case "methodStr":
				rt = tyString
			default:
				rt = tyBool
			}
			return x.pureMethodResult(st, v.T, args[1].Name, rt)
		case "eventAfterLast":
			// eventAfterLast("a", "b"): on this path, after the last event with prefix a there is an
			// event with prefix b (vacuously true if a never happened). Events are concrete per path.
			a, b := args[0].Name, args[1].Name
			last := -1
			for i, ev := range env.St.Events {
				if eventMatch(ev, a) {
					last = i
				}
			}
			if last < 0 {
				return Scalar{TTrue, tyBool}
			}
			for _, ev := range env.St.Events[last+1:] {
				if eventMatch(ev, b) {
					return Scalar{TTrue, tyBool}
				}
			}
			return Scalar{TFalse, tyBool}
		case "eventCount":
			n := int64(0)
			for _, ev := range env.St.Events {
				if eventMatch(ev, args[0].Name) {
					n++
				}
			}
			return ConstV{V: big.NewInt(n)}
		case "closed":
			v := x.asScalar(x.eval(env, args[0]), e)
			return st.heapLoad(v.T, "chan", tyBool)
		case "chancap":
			// chancap(ch): the capacity the channel was made with
			v := x.asScalar(x.eval(env, args[0]), e)
			return st.heapLoad(v.T, "chancap", tyInt)
		case "allocated":
			v := x.asScalar(x.eval(env, args[0]), e)
			return Scalar{And(ILt(IntC(0), v.T), ILe(v.T, st.allocBound())), tyBool}
		}
		if ty, ok := basicByName[fn.Name]; ok && len(args) == 1 {
			v := x.eval(env, args[0])
			switch s := v.(type) {
			case ConstV:
				return Scalar{A.Const(s.V, ty), ty}
			case Scalar:
				if isBoolType(ty) {
					return s
				}
				return Scalar{A.Convert(s.T, s.Ty, ty), ty}
			}
			x.fail("conversion of %T in %s", v, e)
		}
		if sf, ok := x.P.CS.Specs[fn.Name]; ok {
			return x.callSpec(env, sf, args, e)
		}
		if gm, ok := x.P.CS.GhostMaps[fn.Name]; ok {
			arr, idx, rty := x.ghostMapAccess(env, gm, args, e)
			t := arr
			for _, i := range idx {
				t = Select(t, i)
			}
			return Scalar{t, rty}
		}
		if fn.Name == "funcIs" && len(args) == 2 {
			// funcIs(f, "name"): the function value is (a thunk of) the named method/function
			v := x.eval(env, args[0])
			fv, ok := v.(FuncV)
			if !ok || fv.Fn == nil {
				return Scalar{TFalse, tyBool}
			}
			return Scalar{Bool(strings.Contains(fv.Fn.Name(), args[1].Name)), tyBool}
		}
		// named type conversion, e.g. Kind(x)
		if ty := x.lookupType(env, fn.Name); ty != nil && len(args) == 1 {
			v := x.eval(env, args[0])
			switch s := v.(type) {
			case ConstV:
				return Scalar{A.Const(s.V, ty), ty}
			case Scalar:
				return Scalar{A.Convert(s.T, s.Ty, ty), ty}
			}
		}
	}
	if fn.Kind == "sel" && fn.Args[0].Kind == "ident" {
		// pkg.Type(x) conversion or method-like helpers: x.Less(y)
		if ty := x.lookupType(env, fn.Args[0].Name+"."+fn.Name); ty != nil && len(args) == 1 {
			v := x.eval(env, args[0])
			switch s := v.(type) {
			case ConstV:
				return Scalar{A.Const(s.V, ty), ty}
			case Scalar:
				return Scalar{A.Convert(s.T, s.Ty, ty), ty}
			}
		}
	}
	x.fail("unknown function in %s", e)
	return nil
}

func (x *Exec) iteSpec(env *Env, c *Term, a, b Value, e *Expr) Value {
	st := env.St
	a, b = x.materialize(env, a), x.materialize(env, b)
	switch av := a.(type) {
	case ConstV:
		switch bv := b.(type) {
		case ConstV:
			// both untyped: default to int
			return Scalar{Ite(c, st.A.Const(av.V, tyInt), st.A.Const(bv.V, tyInt)), tyInt}
		case Scalar:
			return Scalar{Ite(c, st.A.Const(av.V, bv.Ty), bv.T), bv.Ty}
		}
	case Scalar:
		switch bv := b.(type) {
		case ConstV:
			return Scalar{Ite(c, av.T, st.A.Const(bv.V, av.Ty)), av.Ty}
		case Scalar:
			return Scalar{Ite(c, av.T, bv.T), av.Ty}
		case nil:
			return Scalar{Ite(c, av.T, IntC(0)), av.Ty}
		}
	case SliceV:
		if bv, ok := b.(SliceV); ok {
			return SliceV{Arr: Ite(c, av.Arr, bv.Arr), Off: Ite(c, av.Off, bv.Off), Len: Ite(c, av.Len, bv.Len), Cap: Ite(c, av.Cap, bv.Cap), Elem: av.Elem}
		}
	case StringV:
		if bv, ok := b.(StringV); ok {
			return StringV{Ite(c, av.Arr, bv.Arr), Ite(c, av.Off, bv.Off), Ite(c, av.Len, bv.Len)}
		}
	case StructV:
		if bv, ok := b.(StructV); ok {
			out := StructV{Ty: av.Ty, Fields: make([]Value, len(av.Fields))}
			for i := range av.Fields {
				out.Fields[i] = x.iteSpec(env, c, av.Fields[i], bv.Fields[i], e)
			}
			return out
		}
	case nil:
		if bv, ok := b.(Scalar); ok {
			return Scalar{Ite(c, IntC(0), bv.T), bv.Ty}
		}
	}
	x.fail("ite branches of different shape in %s", e)
	return nil
}

func (x *Exec) bytesEq(env *Env, a, b Value, e *Expr) *Term {
	st := env.St
	A := st.A
	type view struct {
		arr, off, n *Term
		key         string
	}
	mk := func(v Value) view {
		switch s := v.(type) {
		case SliceV:
			return view{s.Arr, s.Off, s.Len, "byte"}
		case StringV:
			return view{s.Arr, s.Off, s.Len, "str"}
		}
		x.fail("bytesEq on %T in %s", v, e)
		return view{}
	}
	va, vb := mk(a), mk(b)
	j := Fresh("q$j", A.IdxSort())
	ia := Select(st.mem(va.key, A.ByteSort()), va.arr)
	ib := Select(st.mem(vb.key, A.ByteSort()), vb.arr)
	body := Implies(And(A.IdxLe(A.Idx(0), j), A.IdxLt(j, va.n)),
		Eq(Select(ia, A.IdxAdd(va.off, j)), Select(ib, A.IdxAdd(vb.off, j))))
	return And(Eq(va.n, vb.n), Forall([]*Term{j}, body))
}

func (x *Exec) callSpec(env *Env, sf *SpecFunc, args []*Expr, e *Expr) Value {
	if len(args) != len(sf.Params) {
		x.fail("spec %s: %d args for %d params", sf.Name, len(args), len(sf.Params))
	}
	if env.depth > 64 {
		x.fail("spec recursion too deep in %s", sf.Name)
	}
	vals := make([]Value, len(args))
	for i, a := range args {
		vals[i] = x.materialize(env, x.eval(env, a))
		// coerce untyped constants to the declared parameter type
		if c, ok := vals[i].(ConstV); ok {
			if ty := x.lookupType(env, sf.Params[i].Type); ty != nil {
				vals[i] = Scalar{env.St.A.Const(c.V, ty), ty}
			}
		}
	}
	opaque := sf.Uninterp
	if sf.Opaque {
		opaque = true
		if x.FC != nil {
			for _, r := range x.FC.Reveal {
				if r == sf.Name {
					opaque = false
				}
			}
		}
	}
	if opaque {
		var ts []*Term
		for i, v := range vals {
			switch s := v.(type) {
			case Scalar:
				ts = append(ts, s.T)
			case ConstV:
				ts = append(ts, env.St.A.Const(s.V, tyInt))
			default:
				x.fail("uninterpreted spec %s: argument %d must be scalar", sf.Name, i)
			}
		}
		rty := x.lookupType(env, sf.Result)
		if rty == nil {
			x.fail("uninterp %s: unknown result type %s", sf.Name, sf.Result)
		}
		return Scalar{App("spec$"+sf.Name, env.St.A.SortOf(rty), ts...), rty}
	}
	ne := *env
	ne.depth = env.depth + 1
	ne.Bound = map[string]Value{}
	for k, v := range env.Bound {
		ne.Bound[k] = v
	}
	for i, p := range sf.Params {
		ne.Bound[p.Name] = vals[i]
	}
	ne.FC = nil
	ne.PkgPath = sf.Pkg
	if sf.Pkg == "*" {
		ne.PkgPath = env.PkgPath
	}
	v := x.eval(&ne, sf.Body)
	v = x.nameSpecResult(env, sf, v)
	if c, ok := v.(ConstV); ok {
		if ty := x.lookupType(env, sf.Result); ty != nil {
			return Scalar{env.St.A.Const(c.V, ty), ty}
		}
	}
	if s, ok := v.(Scalar); ok && sf.Result != "" {
		if ty := x.lookupType(env, sf.Result); ty != nil && isIntType(ty) && isIntType(s.Ty) {
			return Scalar{env.St.A.Convert(s.T, s.Ty, ty), ty}
		}
	}
	return v
}

// nameSpecResult introduces a definitional constant for a large spec-function result so that the
// solver sees an atom (with one defining equation) instead of many copies of a nested ite term.
func (x *Exec) nameSpecResult(env *Env, sf *SpecFunc, v Value) Value {
	sc, ok := v.(Scalar)
	if !ok || sc.T.IsConst() || sc.T.Op == "var" || sc.T.Sort == SBool {
		return v
	}
	if termSize(sc.T, 12) < 12 || hasQuantVar(sc.T) {
		return v
	}
	if x.specNames == nil {
		x.specNames = map[*Term]*Term{}
	}
	c, ok := x.specNames[sc.T]
	if !ok {
		c = Fresh("sp$"+sf.Name, sc.T.Sort)
		x.specNames[sc.T] = c
	}
	def := Eq(c, sc.T)
	specDefTerms.Store(def, true)
	env.St.Assume(def)
	return Scalar{c, sc.Ty}
}

func termSize(t *Term, limit int) int {
	n := 0
	seen := map[*Term]bool{}
	var rec func(*Term)
	rec = func(u *Term) {
		if n >= limit || seen[u] {
			return
		}
		seen[u] = true
		n++
		for _, a := range u.Args {
			rec(a)
		}
	}
	rec(t)
	return n
}

var methodNameRe = regexp.MustCompile(`(\w+)\(`)

var quantVarMemo sync.Map

// specDefTerms registers the defining equations of named spec results (see nameSpecResult).
var specDefTerms sync.Map

func hasQuantVar(t *Term) bool {
	if v, ok := quantVarMemo.Load(t); ok {
		return v.(bool)
	}
	r := false
	if t.Op == "var" && strings.HasPrefix(t.Name, "q$") {
		r = true
	}
	for _, a := range t.Args {
		if hasQuantVar(a) {
			r = true
			break
		}
	}
	quantVarMemo.Store(t, r)
	return r
}

// quantPatterns proposes E-matching patterns: every outermost select / uninterpreted application
// that mentions all bound variables becomes an alternative single-term pattern.
func quantPatterns(bound []*Term, body *Term) [][]*Term {
	bset := map[*Term]bool{}
	for _, b := range bound {
		bset[b] = true
	}
	var cands []*Term
	seen := map[*Term]bool{}
	hasAll := func(t *Term) bool {
		for _, b := range bound {
			if !mentions(t, map[*Term]bool{b: true}) {
				return false
			}
		}
		return true
	}
	var rec func(t *Term)
	rec = func(t *Term) {
		if seen[t] {
			return
		}
		seen[t] = true
		if t.Op == "forall" || t.Op == "exists" {
			return
		}
		if (t.Op == "select" || t.Op == "app") && hasAll(t) {
			if !containsOp(t, "ite") {
				cands = append(cands, t)
			}
			return
		}
		for _, a := range t.Args {
			rec(a)
		}
	}
	rec(body)
	if len(cands) == 0 || len(cands) > 6 {
		return nil
	}
	var out [][]*Term
	for _, c := range cands {
		out = append(out, []*Term{c})
	}
	return out
}

func containsOp(t *Term, op string) bool {
	seen := map[*Term]bool{}
	var rec func(*Term) bool
	rec = func(u *Term) bool {
		if u.Op == op {
			return true
		}
		if seen[u] {
			return false
		}
		seen[u] = true
		for _, a := range u.Args {
			if rec(a) {
				return true
			}
		}
		return false
	}
	return rec(t)
}

// registerIface records an interface (by its type text) whose implementation by concrete types is
// decided statically; facts are assumed for every concrete type boxed so far and at later boxings.
func (x *Exec) registerIface(st *State, text string) {
	if x.ifaceTexts == nil {
		x.ifaceTexts = map[string][]string{}
	}
	if _, ok := x.ifaceTexts[text]; !ok {
		var names []string
		for _, w := range methodNameRe.FindAllStringSubmatch(text, -1) {
			names = append(names, w[1])
		}
		x.ifaceTexts[text] = names
	}
	for _, ct := range x.boxedTypes {
		x.assumeImplements(st, text, ct)
	}
}

func (x *Exec) assumeImplements(st *State, text string, ct types.Type) {
	ms := x.P.SSA.MethodSets.MethodSet(ct)
	all := true
	for _, w := range x.ifaceTexts[text] {
		found := false
		for i := 0; i < ms.Len(); i++ {
			if ms.At(i).Obj().Name() == w {
				found = true
			}
		}
		if !found {
			all = false
		}
	}
	st.Assume(Eq(App("implements$"+text, SBool, IntC(x.typeTag(ct))), Bool(all)))
}

// eventMatch: prefix match that respects identifier boundaries ("invoke:Write" does not match
// "invoke:WriteHeader"; "call:(*Signal)" matches "call:(*Signal).Set").
func eventMatch(ev, pat string) bool {
	if !strings.HasPrefix(ev, pat) {
		return false
	}
	if len(ev) == len(pat) || len(pat) == 0 {
		return true
	}
	isWord := func(c byte) bool {
		return c == '_' || c >= '0' && c <= '9' || c >= 'a' && c <= 'z' || c >= 'A' && c <= 'Z'
	}
	return !(isWord(pat[len(pat)-1]) && isWord(ev[len(pat)]))
}

func (x *Exec) ghostMapSort(env *Env, gm *SpecFunc) (string, types.Type) {
	rty := x.lookupType(env, gm.Result)
	if rty == nil {
		x.fail("ghostmap %s: unknown result type %s", gm.Name, gm.Result)
	}
	sort := env.St.A.SortOf(rty)
	for range gm.Params {
		sort = SArr(SInt, sort)
	}
	return sort, rty
}

// ghostMapAccess returns the ghost map's array, the index terms and the result type.
func (x *Exec) ghostMapAccess(env *Env, gm *SpecFunc, args []*Expr, e *Expr) (*Term, []*Term, types.Type) {
	if len(args) != len(gm.Params) {
		x.fail("ghost map %s: %d indices expected in %s", gm.Name, len(gm.Params), e)
	}
	sort, rty := x.ghostMapSort(env, gm)
	key := "gmap:" + gm.Name
	st := env.St
	arr, ok := st.Heap[key]
	if !ok {
		arr = st.lazyVersion(false, key, sort)
		st.Heap[key] = arr
	}
	var idx []*Term
	for _, a := range args {
		v := x.materialize(env, x.eval(env, a))
		switch s := v.(type) {
		case Scalar:
			idx = append(idx, s.T)
		case PtrV:
			idx = append(idx, st.scalarTerm(s, refType))
		case nil:
			idx = append(idx, IntC(0))
		default:
			x.fail("ghost map index must be a reference or scalar in %s", e)
		}
	}
	return arr, idx, rty
}

// ghostMapStore writes m(idx...) = v.
func (x *Exec) ghostMapStore(env *Env, lhs *Expr, v Value) {
	gm := x.P.CS.GhostMaps[lhs.Args[0].Name]
	arr, idx, rty := x.ghostMapAccess(env, gm, lhs.Args[1:], lhs)
	val := env.St.scalarTerm(x.coerce(env.St, v, rty), rty)
	var rec func(a *Term, k int) *Term
	rec = func(a *Term, k int) *Term {
		if k == len(idx)-1 {
			return Store(a, idx[k], val)
		}
		return Store(a, idx[k], rec(Select(a, idx[k]), k+1))
	}
	env.St.Heap["gmap:"+gm.Name] = rec(arr, 0)
}

func isPtrLike(v Value) bool {
	switch p := v.(type) {
	case PtrV:
		return p.Ref != nil
	case Scalar:
		if p.Ty != nil {
			_, ok := p.Ty.Underlying().(*types.Pointer)
			return ok
		}
	}
	return false
}

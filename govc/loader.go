package main

// Loading /repo (or another module root) with the verif tag, building go/ssa, finding functions.

import (
	"fmt"
	"go/ast"
	"go/token"
	"go/types"
	"os"
	"path/filepath"
	"sort"
	"strings"

	"golang.org/x/tools/go/ast/astutil"
	"golang.org/x/tools/go/packages"
	"golang.org/x/tools/go/ssa"
	"golang.org/x/tools/go/ssa/ssautil"
)

type Program struct {
	Dir     string
	Fset    *token.FileSet
	Pkgs    []*packages.Package
	SSA     *ssa.Program
	ByPath  map[string]*packages.Package
	SPkgs   map[string]*ssa.Package
	CS      *ContractSet
	files   map[string]*ast.File // filename -> syntax
	srcs    map[string][]byte
	ModPath string
}

func LoadProgram(dir string, patterns []string, contractDirs map[string]string) (*Program, error) {
	cfg := &packages.Config{
		Mode: packages.NeedName | packages.NeedFiles | packages.NeedCompiledGoFiles | packages.NeedImports |
			packages.NeedDeps | packages.NeedTypes | packages.NeedSyntax | packages.NeedTypesInfo | packages.NeedTypesSizes | packages.NeedModule,
		Dir:        dir,
		BuildFlags: []string{"-tags=verif", "-mod=mod"},
		Env:        append(os.Environ(), "GOFLAGS=-mod=mod", "GOPROXY=off", "GOSUMDB=off", "GOTOOLCHAIN=local"),
	}
	pkgs, err := packages.Load(cfg, patterns...)
	if err != nil {
		return nil, err
	}
	var errs []string
	packages.Visit(pkgs, nil, func(p *packages.Package) {
		for _, e := range p.Errors {
			errs = append(errs, e.Error())
		}
	})
	if len(errs) > 0 {
		return nil, fmt.Errorf("package errors:\n%s", strings.Join(errs, "\n"))
	}
	prog, spkgs := ssautil.AllPackages(pkgs, ssa.NaiveForm|ssa.GlobalDebug)
	_ = spkgs
	prog.Build()
	p := &Program{Dir: dir, Fset: prog.Fset, Pkgs: pkgs, SSA: prog, ByPath: map[string]*packages.Package{},
		SPkgs: map[string]*ssa.Package{}, CS: NewContractSet(), files: map[string]*ast.File{}, srcs: map[string][]byte{}}
	packages.Visit(pkgs, nil, func(pk *packages.Package) {
		p.ByPath[pk.PkgPath] = pk
		if sp := prog.Package(pk.Types); sp != nil {
			p.SPkgs[pk.PkgPath] = sp
		}
		for i, f := range pk.Syntax {
			if i < len(pk.CompiledGoFiles) {
				p.files[pk.CompiledGoFiles[i]] = f
			}
		}
	})
	// contract files: zz_verif_contracts.go inside each loaded package of the main module, plus extra dirs
	for _, pk := range pkgs {
		if pk.Module != nil && p.ModPath == "" {
			p.ModPath = pk.Module.Path
		}
	}
	var paths []string
	for path := range p.ByPath {
		paths = append(paths, path)
	}
	sort.Strings(paths)
	for _, path := range paths {
		pk := p.ByPath[path]
		for _, f := range pk.GoFiles {
			if strings.HasSuffix(f, "zz_verif_contracts.go") {
				if err := p.CS.LoadFile(f, pk.PkgPath); err != nil {
					return nil, err
				}
			}
		}
		if d, ok := contractDirs[pk.PkgPath]; ok {
			ms, _ := filepath.Glob(filepath.Join(d, "*.contracts"))
			sort.Strings(ms)
			for _, f := range ms {
				if err := p.CS.LoadFile(f, pk.PkgPath); err != nil {
					return nil, err
				}
			}
		}
	}
	if d, ok := contractDirs["*"]; ok {
		ms, _ := filepath.Glob(filepath.Join(d, "*.contracts"))
		sort.Strings(ms)
		for _, f := range ms {
			if err := p.CS.LoadFile(f, "*"); err != nil {
				return nil, err
			}
		}
	}
	return p, nil
}

// FuncName gives the contract name of an SSA function: "Name", "(*T).Name", "(T).Name", "Outer$1".
func FuncName(fn *ssa.Function) string {
	if fn.Parent() != nil {
		// closure: Parent$N
		return FuncName(fn.Parent()) + strings.TrimPrefix(fn.Name(), fn.Parent().Name())
	}
	if fn.Signature.Recv() != nil {
		rt := fn.Signature.Recv().Type()
		ptr := false
		if p, ok := rt.(*types.Pointer); ok {
			rt = p.Elem()
			ptr = true
		}
		name := "?"
		if n, ok := rt.(*types.Named); ok {
			name = n.Obj().Name()
		}
		if ptr {
			return "(*" + name + ")." + fn.Name()
		}
		return "(" + name + ")." + fn.Name()
	}
	return fn.Name()
}

func funcPkgPath(fn *ssa.Function) string {
	if fn.Pkg != nil {
		return fn.Pkg.Pkg.Path()
	}
	if fn.Parent() != nil {
		return funcPkgPath(fn.Parent())
	}
	if o := fn.Origin(); o != nil && o != fn {
		return funcPkgPath(o)
	}
	if fn.Object() != nil && fn.Object().Pkg() != nil {
		return fn.Object().Pkg().Path()
	}
	return ""
}

// FullName is the name used for extern contracts: "(*strings.Builder).Grow", "strings.Count",
// "(encoding/binary.bigEndian).Uint64".
func FullName(fn *ssa.Function) string {
	pp := funcPkgPath(fn)
	n := FuncName(fn)
	if strings.HasPrefix(n, "(*") {
		return "(*" + pp + "." + n[2:]
	}
	if strings.HasPrefix(n, "(") {
		return "(" + pp + "." + n[1:]
	}
	return pp + "." + n
}

// LookupFunc finds the SSA function for a contract name in a package.
func (p *Program) LookupFunc(pkgPath, name string) *ssa.Function {
	sp := p.SPkgs[pkgPath]
	if sp == nil {
		return nil
	}
	base := name
	closure := ""
	if i := strings.Index(name, "$"); i >= 0 {
		base, closure = name[:i], name[i:]
	}
	var fn *ssa.Function
	if strings.HasPrefix(base, "(") {
		ptr := strings.HasPrefix(base, "(*")
		i := strings.Index(base, ")")
		tn := strings.TrimPrefix(strings.TrimPrefix(base[:i], "("), "*")
		mn := base[i+2:]
		obj := sp.Pkg.Scope().Lookup(tn)
		if obj == nil {
			return nil
		}
		named, ok := obj.Type().(*types.Named)
		if !ok {
			return nil
		}
		for i := 0; i < named.NumMethods(); i++ {
			m := named.Method(i)
			if m.Name() == mn {
				f := p.SSA.FuncValue(m)
				if f != nil {
					_, isPtr := m.Type().(*types.Signature).Recv().Type().(*types.Pointer)
					if isPtr == ptr {
						fn = f
					}
				}
			}
		}
	} else {
		fn = sp.Func(base)
	}
	if fn == nil || closure == "" {
		return fn
	}
	// closures: name$1, name$1$2 ...
	want := fn.Name() + closure
	var find func(f *ssa.Function) *ssa.Function
	find = func(f *ssa.Function) *ssa.Function {
		for _, a := range f.AnonFuncs {
			if a.Name() == want {
				return a
			}
			if r := find(a); r != nil {
				return r
			}
		}
		return nil
	}
	return find(fn)
}

func (p *Program) source(file string) []byte {
	if b, ok := p.srcs[file]; ok {
		return b
	}
	b, _ := os.ReadFile(file)
	p.srcs[file] = b
	return b
}

// SrcText returns a short, whitespace-normalised source text for the expression at pos.
func (p *Program) SrcText(pos token.Pos) string {
	if !pos.IsValid() {
		return ""
	}
	position := p.Fset.Position(pos)
	f := p.files[position.Filename]
	if f == nil {
		return ""
	}
	path, _ := astutil.PathEnclosingInterval(f, pos, pos)
	for _, n := range path {
		switch n.(type) {
		case *ast.IndexExpr, *ast.SliceExpr, *ast.CallExpr, *ast.SelectorExpr, *ast.StarExpr, *ast.BinaryExpr,
			*ast.UnaryExpr, *ast.TypeAssertExpr, *ast.CompositeLit, *ast.SendStmt, *ast.IncDecStmt:
			src := p.source(position.Filename)
			s, e := p.Fset.Position(n.Pos()).Offset, p.Fset.Position(n.End()).Offset
			if s >= 0 && e <= len(src) && s < e {
				txt := strings.Join(strings.Fields(string(src[s:e])), " ")
				if len(txt) > 48 {
					txt = txt[:48] + "…"
				}
				return txt
			}
		}
	}
	return ""
}

func (p *Program) PosString(pos token.Pos) string {
	if !pos.IsValid() {
		return ""
	}
	ps := p.Fset.Position(pos)
	rel, err := filepath.Rel(p.Dir, ps.Filename)
	if err != nil {
		rel = ps.Filename
	}
	return fmt.Sprintf("%s:%d", rel, ps.Line)
}

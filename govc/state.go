package main

// Symbolic state: path assumptions, byte/element memories, per-field heap, local cells.

import (
	"fmt"
	"go/types"
	"math/big"
	"sort"

	"golang.org/x/tools/go/ssa"
)

type assumeNode struct {
	t      *Term
	parent *assumeNode
	n      int
}

type deferred struct {
	call *ssa.Defer
	fn   Value
	args []Value
}

type Frame struct {
	Fn          *ssa.Function
	Regs        map[ssa.Value]Value
	Block       *ssa.BasicBlock
	Prev        *ssa.BasicBlock
	PC          int
	Defers      []deferred
	Caller      *Frame
	CallIns     ssa.Instruction // instruction in the caller awaiting the result
	RetVals     []Value         // set by Return before RunDefers-driven exit
	Panicked    bool
	InDefer     int             // >0 while running deferred calls; value = index+1 of next defer to run
	AfterDefers func(st *State) // continuation after the defer stack has been run
	RetTo       *Value
	AfterSite   func(st *State, rv Value)
	Depth       int
}

func (f *Frame) clone() *Frame {
	if f == nil {
		return nil
	}
	nf := *f
	nf.Regs = make(map[ssa.Value]Value, len(f.Regs))
	for k, v := range f.Regs {
		nf.Regs[k] = v
	}
	nf.Defers = append([]deferred(nil), f.Defers...)
	nf.Caller = f.Caller.clone()
	return &nf
}

type State struct {
	X           *Exec
	A           *Arith
	Assumes     *assumeNode
	Mems        map[string]*Term // memory key -> Array Int (Array Idx Elem)
	Heap        map[string]*Term // heap key -> Array Int Sort
	Alloc       *Term            // every reference / array id alive is <= Alloc + AllocK
	AllocK      int64
	Cells       map[*Cell]Value
	Frame       *Frame
	Ghost       map[string]Value
	Held        map[string]*Term        // lock key -> held flag term? kept simple: presence = held
	Loops       map[*ssa.BasicBlock]int // unroll counters
	InLoop      map[*ssa.BasicBlock]*loopEntry
	Trace       []string
	Dead        bool
	OutOfSubset string
	Old         *State // entry snapshot for old()
	Ghosts      map[string]*Term
	Events      []string // ordered effect log (lock/unlock/calls) for path obligations
	monObjs     map[string]monObj
	lockSnap    map[string]*State
	// HLog records every bulk havoc of heap fields / memories on this path, so that a key that is
	// first touched after the havoc does not silently denote its entry value.
	HLog []*havocEvent
	// Escaped: local variables whose address was handed to code the executor does not see (boxed into
	// an interface, passed to an extern or unknown callee): any such callee may assign them
	Escaped map[*Cell]bool
}

// havocEvent is one bulk havoc: every covered key gets a new version, named deterministically from
// the event id so that the version is the same whenever (and on whichever fork) it is first needed.
type havocEvent struct {
	id        int
	mem       bool // memories (Mems) rather than heap fields
	covers    func(k string) bool
	constrain func(s *State, k string, old, nw *Term)
}

var havocSeq int

func (s *State) logHavoc(mem bool, covers func(string) bool, constrain func(*State, string, *Term, *Term)) *havocEvent {
	havocSeq++
	if !mem && s.X != nil && s.X.P != nil && len(s.X.P.CS.Immutables) > 0 {
		inner, cs := covers, s.X.P.CS
		covers = func(k string) bool { return !cs.immutableKey(k) && inner(k) }
	}
	ev := &havocEvent{id: havocSeq, mem: mem, covers: covers, constrain: constrain}
	s.HLog = append(s.HLog[:len(s.HLog):len(s.HLog)], ev)
	return ev
}

func (ev *havocEvent) version(k, sort string) *Term {
	pre := "H"
	if ev.mem {
		pre = "Mem"
	}
	return Var(fmt.Sprintf("%s@%d$%s", pre, ev.id, k), sort)
}

// lazyVersion is the current version of a key that was not touched on this path so far.
func (s *State) lazyVersion(mem bool, key, sort string) *Term {
	pre := "H0$"
	if mem {
		pre = "Mem0$"
	}
	h := Var(pre+key, sort)
	for _, ev := range s.HLog {
		if ev.mem != mem || !ev.covers(key) {
			continue
		}
		nh := ev.version(key, sort)
		if ev.constrain != nil {
			ev.constrain(s, key, h, nh)
		}
		h = nh
	}
	return h
}

type loopEntry struct {
	decr *Term // value of the decreases expression at the head
	snap *State
}

func (s *State) clone() *State {
	n := *s
	n.Mems = make(map[string]*Term, len(s.Mems))
	for k, v := range s.Mems {
		n.Mems[k] = v
	}
	n.Heap = make(map[string]*Term, len(s.Heap))
	for k, v := range s.Heap {
		n.Heap[k] = v
	}
	n.Cells = make(map[*Cell]Value, len(s.Cells))
	for k, v := range s.Cells {
		n.Cells[k] = v
	}
	n.Ghost = make(map[string]Value, len(s.Ghost))
	for k, v := range s.Ghost {
		n.Ghost[k] = v
	}
	n.Held = make(map[string]*Term, len(s.Held))
	for k, v := range s.Held {
		n.Held[k] = v
	}
	if s.Escaped != nil {
		n.Escaped = make(map[*Cell]bool, len(s.Escaped))
		for k, v := range s.Escaped {
			n.Escaped[k] = v
		}
	}
	n.Loops = make(map[*ssa.BasicBlock]int, len(s.Loops))
	for k, v := range s.Loops {
		n.Loops[k] = v
	}
	n.InLoop = make(map[*ssa.BasicBlock]*loopEntry, len(s.InLoop))
	for k, v := range s.InLoop {
		n.InLoop[k] = v
	}
	n.monObjs = make(map[string]monObj, len(s.monObjs))
	for k, v := range s.monObjs {
		n.monObjs[k] = v
	}
	n.lockSnap = make(map[string]*State, len(s.lockSnap))
	for k, v := range s.lockSnap {
		n.lockSnap[k] = v
	}
	n.Trace = append([]string(nil), s.Trace...)
	n.Events = append([]string(nil), s.Events...)
	n.Frame = s.Frame.clone()
	return &n
}

// snapshot is a cheap copy without frames (used for old()).
func (s *State) snapshot() *State {
	f := s.Frame
	s.Frame = nil
	n := s.clone()
	s.Frame = f
	return n
}

func (s *State) Assume(t *Term) {
	if t == nil || t.IsTrue() {
		return
	}
	if t.IsFalse() {
		s.Dead = true
	}
	if t.Op == "and" {
		for _, a := range t.Args {
			s.Assume(a)
		}
		return
	}
	if t.Op == "forall" && len(t.Pats) > 0 && !t.reindexed {
		for _, v := range reindexForall(t) {
			s.Assume(v)
		}
	}
	n := 1
	if s.Assumes != nil {
		n = s.Assumes.n + 1
	}
	s.Assumes = &assumeNode{t: t, parent: s.Assumes, n: n}
}

func (s *State) AssumeList() []*Term {
	var out []*Term
	for n := s.Assumes; n != nil; n = n.parent {
		out = append(out, n.t)
	}
	for i, j := 0, len(out)-1; i < j; i, j = i+1, j-1 {
		out[i], out[j] = out[j], out[i]
	}
	return out
}

// ---------------------------------------------------------------------------------------------
// flattening of Go types into scalar leaves

type leaf struct {
	suffix string
	ty     types.Type // scalar Go type; nil for Int-sorted bookkeeping (arr ids)
	idx    bool       // index-sorted (len/cap/off)
}

func typeKey(t types.Type) string {
	switch x := t.(type) {
	case *types.Named:
		o := x.Obj()
		if o.Pkg() != nil {
			return o.Pkg().Path() + "." + o.Name()
		}
		return o.Name()
	case *types.Pointer:
		return "*" + typeKey(x.Elem())
	case *types.Alias:
		return typeKey(types.Unalias(t))
	}
	return t.String()
}

func flatten(t types.Type, prefix string, out *[]leaf) {
	switch u := t.Underlying().(type) {
	case *types.Basic:
		if u.Info()&types.IsString != 0 {
			*out = append(*out, leaf{prefix + "#arr", nil, false}, leaf{prefix + "#off", nil, true}, leaf{prefix + "#len", nil, true})
			return
		}
		*out = append(*out, leaf{prefix, t, false})
	case *types.Slice:
		*out = append(*out, leaf{prefix + "#arr", nil, false}, leaf{prefix + "#off", nil, true},
			leaf{prefix + "#len", nil, true}, leaf{prefix + "#cap", nil, true})
	case *types.Array:
		*out = append(*out, leaf{prefix + "#arr", nil, false})
	case *types.Struct:
		for i := 0; i < u.NumFields(); i++ {
			flatten(u.Field(i).Type(), prefix+"."+u.Field(i).Name(), out)
		}
	default:
		// pointers, interfaces, maps, chans, funcs, type params: one Int reference
		*out = append(*out, leaf{prefix, t, false})
	}
}

func (s *State) leafSort(l leaf) string {
	if l.idx {
		return s.A.IdxSort()
	}
	if l.ty == nil {
		return SInt
	}
	return s.A.SortOf(l.ty)
}

// toTerms flattens a value of type t into leaf terms (same order as flatten).
func (s *State) toTerms(v Value, t types.Type) []*Term {
	var out []*Term
	s.toTermsRec(v, t, &out)
	return out
}

func (s *State) toTermsRec(v Value, t types.Type, out *[]*Term) {
	switch u := t.Underlying().(type) {
	case *types.Basic:
		if u.Info()&types.IsString != 0 {
			sv := s.asString(v)
			*out = append(*out, sv.Arr, sv.Off, sv.Len)
			return
		}
		*out = append(*out, s.scalarTerm(v, t))
	case *types.Slice:
		sv, ok := v.(SliceV)
		if !ok {
			panic(fmt.Sprintf("toTerms: slice expected, got %T", v))
		}
		*out = append(*out, sv.Arr, sv.Off, sv.Len, sv.Cap)
	case *types.Array:
		sv, ok := v.(SliceV)
		if !ok {
			panic(fmt.Sprintf("toTerms: array expected, got %T", v))
		}
		*out = append(*out, sv.Arr)
	case *types.Struct:
		sv, ok := v.(StructV)
		if !ok {
			panic(fmt.Sprintf("toTerms: struct expected for %s, got %T", t, v))
		}
		for i := 0; i < u.NumFields(); i++ {
			s.toTermsRec(sv.Fields[i], u.Field(i).Type(), out)
		}
	default:
		*out = append(*out, s.scalarTerm(v, t))
	}
}

func (s *State) fromTerms(t types.Type, ts []*Term) Value {
	v, rest := s.fromTermsRec(t, ts)
	if len(rest) != 0 {
		panic("fromTerms: leftover terms")
	}
	return v
}

func (s *State) fromTermsRec(t types.Type, ts []*Term) (Value, []*Term) {
	switch u := t.Underlying().(type) {
	case *types.Basic:
		if u.Info()&types.IsString != 0 {
			return StringV{ts[0], ts[1], ts[2]}, ts[3:]
		}
		return Scalar{ts[0], t}, ts[1:]
	case *types.Slice:
		return SliceV{Arr: ts[0], Off: ts[1], Len: ts[2], Cap: ts[3], Elem: u.Elem()}, ts[4:]
	case *types.Array:
		n := s.A.Idx(u.Len())
		return SliceV{Arr: ts[0], Off: s.A.Idx(0), Len: n, Cap: n, Elem: u.Elem()}, ts[1:]
	case *types.Struct:
		sv := StructV{Ty: t, Fields: make([]Value, u.NumFields())}
		for i := 0; i < u.NumFields(); i++ {
			sv.Fields[i], ts = s.fromTermsRec(u.Field(i).Type(), ts)
		}
		return sv, ts
	default:
		return Scalar{ts[0], t}, ts[1:]
	}
}

// scalarTerm coerces v to a term of scalar type t.
func (s *State) scalarTerm(v Value, t types.Type) *Term {
	switch x := v.(type) {
	case Scalar:
		want := s.A.SortOf(t)
		if x.T.Sort != want {
			if isBV(x.T.Sort) && isBV(want) {
				return s.A.Convert(x.T, x.Ty, t)
			}
			panic(fmt.Sprintf("scalarTerm: sort %s for type %s (want %s): %s", x.T.Sort, t, want, x.T))
		}
		return x.T
	case ConstV:
		return s.A.Const(x.V, t)
	case PtrV:
		if x.Ref != nil && x.Root == "" {
			return x.Ref
		}
		if x.Ref != nil {
			// interior pointer used as a scalar: encode (ref, root) as an opaque Int
			return App("interior$"+x.Root, SInt, x.Ref)
		}
		if x.Cell != nil {
			return App(fmt.Sprintf("celladdr$%d", x.Cell.id), SInt)
		}
		if x.Arr != nil {
			return App("elemaddr", SInt, x.Arr, s.idxToInt(x.Idx))
		}
	case FuncV:
		if x.Opaque != nil {
			return x.Opaque
		}
		if x.Fn != nil {
			return App("func$"+x.Fn.String(), SInt)
		}
	case nil:
		return s.zeroTerm(t)
	}
	panic(fmt.Sprintf("scalarTerm: cannot coerce %T to %s", v, t))
}

func (s *State) idxToInt(i *Term) *Term {
	if i.Sort == SInt {
		return i
	}
	return App("bv2int64", SInt, i)
}

func (s *State) zeroTerm(t types.Type) *Term {
	b := basicOf(t)
	if b != nil && b.Info()&types.IsBoolean != 0 {
		return TFalse
	}
	if b != nil && b.Info()&types.IsInteger != 0 {
		return s.A.Const(big.NewInt(0), t)
	}
	return IntC(0)
}

func (s *State) zeroValue(t types.Type) Value {
	switch u := t.Underlying().(type) {
	case *types.Basic:
		if u.Info()&types.IsString != 0 {
			return StringV{IntC(0), s.A.Idx(0), s.A.Idx(0)}
		}
		return Scalar{s.zeroTerm(t), t}
	case *types.Slice:
		return SliceV{Arr: IntC(0), Off: s.A.Idx(0), Len: s.A.Idx(0), Cap: s.A.Idx(0), Elem: u.Elem()}
	case *types.Array:
		// a zeroed array: fresh backing with zero contents
		id := s.freshID()
		s.assumeZeroed(id, u.Elem(), u.Len())
		n := s.A.Idx(u.Len())
		return SliceV{Arr: id, Off: s.A.Idx(0), Len: n, Cap: n, Elem: u.Elem()}
	case *types.Struct:
		sv := StructV{Ty: t, Fields: make([]Value, u.NumFields())}
		for i := 0; i < u.NumFields(); i++ {
			sv.Fields[i] = s.zeroValue(u.Field(i).Type())
		}
		return sv
	default:
		return Scalar{IntC(0), t}
	}
}

// freshValue makes an unconstrained value of type t with its type invariant assumed.
func (s *State) freshValue(name string, t types.Type) Value {
	var ls []leaf
	flatten(t, "", &ls)
	ts := make([]*Term, len(ls))
	for i, l := range ls {
		ts[i] = Fresh(name+l.suffix, s.leafSort(l))
	}
	v := s.fromTerms(t, ts)
	s.assumeTypeInv(v, t)
	return v
}

const maxObjBits = 48 // machine assumption: no object larger than 2^48 bytes

func (s *State) assumeTypeInv(v Value, t types.Type) {
	switch x := v.(type) {
	case Scalar:
		s.Assume(s.A.RangeInv(x.T, t))
		if s.isRefType(t) {
			s.Assume(ILe(IntC(0), x.T))
			s.Assume(ILe(x.T, s.allocBound()))
		}
	case SliceV:
		s.assumeSliceInv(x)
	case StringV:
		a := s.A
		z := a.Idx(0)
		lim := a.Const(pow2(maxObjBits), tyInt)
		// string identities may be negative (literals)
		s.Assume(And(ILe(x.Arr, s.allocBound()),
			a.IdxLe(z, x.Off), a.IdxLe(z, x.Len), a.IdxLe(x.Len, lim), a.IdxLe(x.Off, lim)))
		s.Assume(Implies(Eq(x.Arr, IntC(0)), Eq(x.Len, z)))
	case StructV:
		st := t.Underlying().(*types.Struct)
		for i, f := range x.Fields {
			s.assumeTypeInv(f, st.Field(i).Type())
		}
	}
}

func (s *State) assumeSliceInv(x SliceV) {
	a := s.A
	z := a.Idx(0)
	lim := a.Const(pow2(maxObjBits), tyInt)
	s.Assume(And(ILe(IntC(0), x.Arr), ILe(x.Arr, s.allocBound()),
		a.IdxLe(z, x.Off), a.IdxLe(z, x.Len), a.IdxLe(x.Len, x.Cap), a.IdxLe(x.Cap, lim), a.IdxLe(x.Off, lim)))
	s.Assume(Implies(Eq(x.Arr, IntC(0)), And(Eq(x.Cap, z), Eq(x.Off, z))))
}

func (s *State) isRefType(t types.Type) bool {
	switch t.Underlying().(type) {
	case *types.Pointer, *types.Interface, *types.Map, *types.Chan, *types.Signature:
		return true
	}
	return false
}

func (s *State) allocBound() *Term { return IAdd(s.Alloc, IntC(s.AllocK)) }

// freshID allocates a new reference / backing-array identity, distinct from everything alive.
func (s *State) freshID() *Term {
	s.AllocK++
	return IAdd(s.Alloc, IntC(s.AllocK))
}

// bumpAlloc is used after calls that may allocate: the bound becomes a fresh symbol.
func (s *State) bumpAlloc() {
	n := Fresh("alloc", SInt)
	s.Assume(ILe(s.allocBound(), n))
	s.Alloc = n
	s.AllocK = 0
}

// ---------------------------------------------------------------------------------------------
// memories

func (s *State) memKey(elem types.Type, suffix string) string {
	if b := basicOf(elem); b != nil && (b.Kind() == types.Uint8 || b.Kind() == types.Int8) && suffix == "" {
		return "byte"
	}
	return "mem:" + typeKey(elem) + suffix
}

func (s *State) memSort(elemSort string) string {
	return SArr(SInt, SArr(s.A.IdxSort(), elemSort))
}

func (s *State) mem(key, elemSort string) *Term {
	m, ok := s.Mems[key]
	if !ok {
		m = s.lazyVersion(true, key, s.memSort(elemSort))
		s.Mems[key] = m
		s.X.noteSym(m)
	}
	return m
}

// memLoad reads element idx (absolute index in the backing array) of type elem.
func (s *State) memLoad(arr, idx *Term, elem types.Type) Value {
	var ls []leaf
	flatten(elem, "", &ls)
	ts := make([]*Term, len(ls))
	for i, l := range ls {
		es := s.leafSort(l)
		key := s.memKey(elem, l.suffix)
		ts[i] = Select(Select(s.mem(key, es), arr), idx)
	}
	v := s.fromTerms(elem, ts)
	s.assumeLoadedInv(v, elem)
	return v
}

// assumeLoadedInv assumes type invariants of values read from memory or heap (lazy instances).
func (s *State) assumeLoadedInv(v Value, t types.Type) {
	switch x := v.(type) {
	case Scalar:
		if x.T.IsConst() {
			return
		}
		if s.A.Mode == ModeInt && isIntType(t) {
			s.Assume(s.A.RangeInv(x.T, t))
		}
		if s.isRefType(t) {
			s.Assume(And(ILe(IntC(0), x.T), ILe(x.T, s.allocBound())))
		}
	case SliceV:
		s.assumeSliceInv(x)
	case StringV:
		s.assumeTypeInv(x, t)
	case StructV:
		st := t.Underlying().(*types.Struct)
		for i, f := range x.Fields {
			s.assumeLoadedInv(f, st.Field(i).Type())
		}
	}
}

func (s *State) memStore(arr, idx *Term, elem types.Type, v Value) {
	var ls []leaf
	flatten(elem, "", &ls)
	ts := s.toTerms(v, elem)
	for i, l := range ls {
		es := s.leafSort(l)
		key := s.memKey(elem, l.suffix)
		m := s.mem(key, es)
		s.setMem(key, Store(m, arr, Store(Select(m, arr), idx, ts[i])))
	}
}

// memCopy: dst[dOff+j] = src[sOff+j] for 0 <= j < n, everything else unchanged (memmove semantics:
// the source is read from the memory before the copy).
func (s *State) memCopy(dArr, dOff, sArr, sOff, n *Term, elem types.Type, srcMems map[string]*Term) {
	var ls []leaf
	flatten(elem, "", &ls)
	a := s.A
	for _, l := range ls {
		es := s.leafSort(l)
		key := s.memKey(elem, l.suffix)
		m := s.mem(key, es)
		src := m
		if srcMems != nil {
			if sm, ok := srcMems[key]; ok {
				src = sm
			}
		}
		old := Select(m, dArr)
		srcA := Select(src, sArr)
		na := Fresh("cp", SArr(a.IdxSort(), es))
		j := Fresh("j", a.IdxSort())
		inRange := And(a.IdxLe(dOff, j), a.IdxLt(j, a.IdxAdd(dOff, n)))
		body := Eq(Select(na, j), Ite(inRange, Select(srcA, a.IdxAdd(sOff, a.IdxSub(j, dOff))), Select(old, j)))
		s.Assume(Forall([]*Term{j}, body, []*Term{Select(na, j)}))
		s.setMem(key, Store(m, dArr, na))
	}
}

// memHavocRange: elements [lo,hi) of arr get unknown contents, the rest is unchanged.
func (s *State) memHavocRange(arr, lo, hi *Term, elem types.Type) {
	var ls []leaf
	flatten(elem, "", &ls)
	a := s.A
	for _, l := range ls {
		es := s.leafSort(l)
		key := s.memKey(elem, l.suffix)
		m := s.mem(key, es)
		old := Select(m, arr)
		na := Fresh("hv", SArr(a.IdxSort(), es))
		j := Fresh("j", a.IdxSort())
		inRange := And(a.IdxLe(lo, j), a.IdxLt(j, hi))
		s.Assume(Forall([]*Term{j}, Implies(Not(inRange), Eq(Select(na, j), Select(old, j))), []*Term{Select(na, j)}))
		s.setMem(key, Store(m, arr, na))
	}
}

func (s *State) assumeZeroed(arr *Term, elem types.Type, n int64) {
	var ls []leaf
	flatten(elem, "", &ls)
	a := s.A
	for _, l := range ls {
		es := s.leafSort(l)
		key := s.memKey(elem, l.suffix)
		m := s.mem(key, es)
		var zero *Term
		switch {
		case es == SBool:
			zero = TFalse
		case isBV(es):
			zero = BVC(big.NewInt(0), bvWidth(es))
		default:
			zero = IntC(0)
		}
		if n >= 0 && n <= 16 {
			inner := Select(m, arr)
			for k := int64(0); k < n; k++ {
				inner = Store(inner, a.Idx(k), zero)
			}
			s.setMem(key, Store(m, arr, inner))
			continue
		}
		na := Fresh("zero", SArr(a.IdxSort(), es))
		j := Fresh("j", a.IdxSort())
		s.Assume(Forall([]*Term{j}, Eq(Select(na, j), zero), []*Term{Select(na, j)}))
		s.setMem(key, Store(m, arr, na))
	}
}

func (s *State) havocAllMem() {
	ev := s.logHavoc(true, func(k string) bool { return k != "str" }, nil)
	keys := make([]string, 0, len(s.Mems))
	for k := range s.Mems {
		keys = append(keys, k)
	}
	sort.Strings(keys)
	for _, k := range keys {
		if k == "str" {
			continue // strings are immutable
		}
		s.Mems[k] = ev.version(k, s.Mems[k].Sort)
	}
	s.X.memHavocEpoch++
}

// ---------------------------------------------------------------------------------------------
// heap

func (s *State) heapArr(key, sort string) *Term {
	h, ok := s.Heap[key]
	if !ok {
		h = s.lazyVersion(false, key, SArr(SInt, sort))
		s.Heap[key] = h
		s.X.noteSym(h)
		s.X.heapSorts[key] = sort
	}
	return h
}

func (s *State) heapLoad(ref *Term, root string, t types.Type) Value {
	var ls []leaf
	flatten(t, "", &ls)
	ts := make([]*Term, len(ls))
	for i, l := range ls {
		ts[i] = Select(s.heapArr(root+l.suffix, s.leafSort(l)), ref)
	}
	v := s.fromTerms(t, ts)
	s.assumeLoadedInv(v, t)
	return v
}

func (s *State) heapStore(ref *Term, root string, t types.Type, v Value) {
	var ls []leaf
	flatten(t, "", &ls)
	ts := s.toTerms(v, t)
	for i, l := range ls {
		key := root + l.suffix
		s.Heap[key] = Store(s.heapArr(key, s.leafSort(l)), ref, ts[i])
	}
}

// havocHeapKeyPrefix replaces every field array whose key starts with prefix.
func (s *State) havocHeapPrefix(prefix string) {
	s.havocHeapWhere(func(k string) bool { return keyUnder(k, prefix) })
}

func (s *State) havocHeapWhere(covers func(string) bool) {
	ev := s.logHavoc(false, covers, nil)
	for k, h := range s.Heap {
		if ev.covers(k) {
			s.Heap[k] = ev.version(k, h.Sort)
		}
	}
}

func (s *State) markEscaped(v Value) {
	if p, ok := v.(PtrV); ok && p.Cell != nil {
		if s.Escaped == nil {
			s.Escaped = map[*Cell]bool{}
		}
		s.Escaped[p.Cell] = true
	}
}

func (s *State) havocEscaped() {
	for c := range s.Escaped {
		if _, ok := s.Cells[c]; ok {
			s.Cells[c] = s.freshValue("esc$"+c.Name, c.Ty)
		}
	}
}

func (s *State) havocAllHeap() {
	s.havocEscaped()
	s.havocHeapWhere(func(string) bool { return true })
	s.X.heapHavocEpoch++
	// axioms about package-level values hold in every reachable state
	if s.X.P != nil {
		s.X.entryAssumptions(s, nil)
	}
}

// havocHeapAt replaces the fields under root at object ref only.
func (s *State) havocHeapAt(ref *Term, root string, t types.Type) {
	v := s.freshValue("hv", t)
	s.heapStore(ref, root, t, v)
}

// ---------------------------------------------------------------------------------------------
// strings

func (s *State) asString(v Value) StringV {
	switch x := v.(type) {
	case StringV:
		return x
	case ConstV:
		panic("asString: untyped const")
	}
	panic(fmt.Sprintf("asString: %T", v))
}

// constString interns a string literal: unique identity per distinct text, contents known.
func (s *State) constString(str string) StringV {
	id := s.X.stringID(str)
	a := s.A
	sv := StringV{IntC(id), a.Idx(0), a.Idx(int64(len(str)))}
	if len(str) <= 64 {
		m := s.mem("str", a.ByteSort())
		inner := Select(m, sv.Arr)
		for i := 0; i < len(str); i++ {
			s.Assume(Eq(Select(inner, a.Idx(int64(i))), a.Const(big.NewInt(int64(str[i])), tyByte)))
		}
	}
	return sv
}

// setMem installs a new memory version under a fresh name (one defining equation), so that later
// terms and quantifier patterns mention an atom instead of a growing store chain.
func (s *State) setMem(key string, t *Term) {
	if t.Op == "var" {
		s.Mems[key] = t
		return
	}
	m := Fresh("M$"+key, t.Sort)
	s.Assume(Eq(m, t))
	s.Mems[key] = m
}

// reindexForall: an assumed "forall q. P(A[c+q])" is only usable by E-matching when a term of the
// syntactic shape A[c+q] is around; arithmetic under a trigger is fragile. For every pattern
// select(A, c+q) we add the equivalent fact quantified over the absolute index j = c+q with the
// arithmetic-free trigger select(A, j).
func reindexForall(t *Term) []*Term {
	nb := len(t.Args) - 1
	if nb != 1 {
		return nil
	}
	q := t.Args[0]
	if q.Sort != SInt {
		return nil
	}
	body := t.Args[1]
	qset := map[*Term]bool{q: true}
	var out []*Term
	for _, p := range t.Pats {
		if len(p) != 1 || p[0].Op != "select" {
			continue
		}
		A, idx := p[0].Args[0], p[0].Args[1]
		if mentions(A, qset) || idx == q {
			continue
		}
		c, ok := splitLinear(idx, q, qset)
		if !ok {
			continue
		}
		j := Fresh("j", SInt)
		nbody := Subst(body, map[*Term]*Term{q: ISub(j, c)})
		nt := Forall([]*Term{j}, nbody, []*Term{Select(A, j)})
		if nt.Op == "forall" {
			nt.reindexed = true
		}
		out = append(out, nt)
		break // orient: only the first (by convention the new-state) access drives instantiation
	}
	return out
}

// splitLinear decomposes idx = c + q where c does not mention q.
func splitLinear(idx, q *Term, qset map[*Term]bool) (*Term, bool) {
	if idx.Op != "+" {
		return nil, false
	}
	var rest []*Term
	found := 0
	var flat func(t *Term)
	flat = func(t *Term) {
		if t.Op == "+" {
			for _, a := range t.Args {
				flat(a)
			}
			return
		}
		if t == q {
			found++
			return
		}
		rest = append(rest, t)
	}
	flat(idx)
	if found != 1 {
		return nil, false
	}
	c := IntC(0)
	for _, r := range rest {
		if mentions(r, qset) {
			return nil, false
		}
		c = IAdd(c, r)
	}
	return c, true
}

package main

// Calls: builtins, inlining, modular calls through contracts, externs, havoc.

import (
	"fmt"
	"go/types"
	"os"
	"sort"
	"strings"

	"golang.org/x/tools/go/ssa"
)

func (x *Exec) contractFor(fn *ssa.Function) *FuncContract {
	if fn == nil {
		return nil
	}
	o := fn
	if fn.Origin() != nil {
		o = fn.Origin()
	}
	if fc, ok := x.P.CS.Funcs[funcPkgPath(o)+"."+FuncName(o)]; ok {
		return fc
	}
	full := FullName(o)
	if fc, ok := x.P.CS.Externs[funcPkgPath(o)+"|"+FuncName(o)]; ok {
		return fc
	}
	if fc, ok := x.P.CS.Externs[x.Pkg+"|"+full]; ok {
		return fc
	}
	if fc, ok := x.P.CS.Externs[full]; ok {
		return fc
	}
	return nil
}

func (x *Exec) externForInvoke(c *ssa.CallCommon) *FuncContract {
	recv := c.Value.Type()
	name := typeKey(recv) + "." + c.Method.Name()
	if fc, ok := x.P.CS.Externs[x.Pkg+"|"+name]; ok {
		return fc
	}
	if fc, ok := x.P.CS.Externs[name]; ok {
		return fc
	}
	// method declared in an embedded interface: try the method's own interface
	if c.Method.Pkg() != nil {
		if sig, ok := c.Method.Type().(*types.Signature); ok && sig.Recv() != nil {
			n2 := typeKey(sig.Recv().Type()) + "." + c.Method.Name()
			if fc, ok := x.P.CS.Externs[x.Pkg+"|"+n2]; ok {
				return fc
			}
			if fc, ok := x.P.CS.Externs[n2]; ok {
				return fc
			}
		}
	}
	// "error.Error" style for universe types
	if named, ok := recv.(*types.Named); ok && named.Obj().Pkg() == nil {
		if fc, ok := x.P.CS.Externs[named.Obj().Name()+"."+c.Method.Name()]; ok {
			return fc
		}
	}
	return nil
}

var pureExterns = map[string]bool{
	"fmt.Sprintf": true, "fmt.Sprint": true, "fmt.Errorf": true, "errors.New": true, "strconv.Itoa": true,
	"strconv.FormatUint": true, "strconv.FormatInt": true, "strings.ToLower": true, "strings.ToUpper": true,
	"strings.TrimSpace": true, "strings.Contains": true, "strings.HasPrefix": true, "strings.HasSuffix": true,
	"strings.Split": true, "strings.Join": true, "strings.EqualFold": true, "time.Now": true, "time.Since": true,
	"runtime/trace.IsEnabled": true, "runtime/trace.Logf": true, "runtime/trace.Log": true,
	"net/textproto.TrimString": true, "strings.TrimPrefix": true, "strings.TrimSuffix": true,
	"(*github.com/zeebo/errs.Class).New": true, "(*github.com/zeebo/errs.Class).Wrap": true,
	"github.com/zeebo/errs.New": true, "github.com/zeebo/errs.Wrap": true, "github.com/zeebo/errs.Combine": true,
	"(*github.com/zeebo/errs.Class).Has": true, "errors.Is": true, "errors.As": false,
	"math/bits.Len64": true, "math/bits.Len": true, "strings.IndexByte": true, "strings.Count": true,
	"strings.Index": true, "strings.LastIndexByte": true, "bytes.Equal": true, "bytes.IndexByte": true,
	"context.Background": true, "context.TODO": true, "runtime.Gosched": true,
	"reflect.TypeOf": true, "reflect.ValueOf": true, "unicode/utf8.ValidString": true,
	"(*runtime/trace.Task).End": true, "runtime/trace.NewTask": true,
}

func (x *Exec) isPureExtern(fn *ssa.Function) bool { return pureExterns[FullName(fn)] }

// evalCallee evaluates the callee value and arguments of a call (receiver first for invoke/methods).
func (x *Exec) evalCallee(st *State, c *ssa.CallCommon) (Value, []Value) {
	var args []Value
	if c.IsInvoke() {
		args = append(args, x.val(st, c.Value))
		for _, a := range c.Args {
			args = append(args, x.val(st, a))
		}
		return nil, args
	}
	for _, a := range c.Args {
		args = append(args, x.val(st, a))
	}
	return x.val(st, c.Value), args
}

// doCall handles a call instruction; result register is res (nil for defer/go). Returns whether to advance PC.
func (x *Exec) doCall(st *State, ins ssa.Instruction, c *ssa.CallCommon, res ssa.Value) bool {
	fnv, args := x.evalCallee(st, c)
	return x.invoke(st, ins, c, fnv, args, res)
}

func (x *Exec) invoke(st *State, ins ssa.Instruction, c *ssa.CallCommon, fnv Value, args []Value, res ssa.Value) bool {
	setRes := func(v Value) {
		if res != nil {
			st.Frame.Regs[res] = v
		}
	}
	if b, ok := fnv.(*ssa.Builtin); ok {
		if b.Name() == "close" && st.Frame.Fn == x.Fn && x.FC != nil && len(x.FC.Sites) > 0 {
			x.siteBefore(st, ins, "close", args)
		}
		setRes(x.builtin(st, ins, b, c, args))
		return true
	}
	var callee *ssa.Function
	var binds []Value
	if fv, ok := fnv.(FuncV); ok {
		callee = fv.Fn
		binds = fv.Bind
	}
	var fc *FuncContract
	sig := c.Signature()
	name := ""
	switch {
	case c.IsInvoke():
		fc = x.externForInvoke(c)
		name = typeKey(c.Value.Type()) + "." + c.Method.Name()
	case callee != nil:
		fc = x.contractFor(callee)
		name = FullName(callee)
	default:
		name = "dynamic"
	}
	dynName := ""
	if callee == nil && !c.IsInvoke() {
		if u, ok := c.Value.(*ssa.UnOp); ok {
			if a, ok := u.X.(*ssa.Alloc); ok && a.Comment != "" {
				dynName = a.Comment
			}
			if fa, ok := u.X.(*ssa.FieldAddr); ok {
				dynName = fa.X.Type().Underlying().(*types.Pointer).Elem().Underlying().(*types.Struct).Field(fa.Field).Name()
			}
		}
		if fld, ok := c.Value.(*ssa.Field); ok {
			dynName = fld.X.Type().Underlying().(*types.Struct).Field(fld.Field).Name()
		}
	}
	defer func(n int) {
		// the event is recorded after the "before" site clauses were evaluated
		ev := ""
		if callee != nil {
			ev = "call:" + FuncName(originOf(callee))
		} else if c.IsInvoke() {
			ev = "invoke:" + c.Method.Name()
		} else if dynName != "" {
			ev = "dyn:" + dynName
		}
		if ev != "" && !st.Dead {
			// keep program order: insert at the position the call started
			if n <= len(st.Events) {
				st.Events = append(st.Events[:n:n], append([]string{ev}, st.Events[n:]...)...)
			} else {
				st.Events = append(st.Events, ev)
			}
		}
	}(len(st.Events))
	siteName := ""
	// call-site clauses and ghost updates apply to the calls the function makes itself and to the calls
	// made by callees that are inlined into it (a helper extracted from the body keeps its clauses;
	// ordinals "#k" only number the function's own call sites)
	if x.FC != nil && (len(x.FC.Sites) > 0 || len(x.FC.Ghosts) > 0) {
		callerFrame := st.Frame
		switch {
		case c.IsInvoke():
			siteName = c.Method.Name()
		case callee != nil:
			siteName = FuncName(originOf(callee))
		default:
			siteName = c.Value.Name()
			if u, ok := c.Value.(*ssa.UnOp); ok {
				if a, ok := u.X.(*ssa.Alloc); ok && a.Comment != "" {
					siteName = a.Comment
				}
				if fa, ok := u.X.(*ssa.FieldAddr); ok {
					siteName = fa.X.Type().Underlying().(*types.Pointer).Elem().Underlying().(*types.Struct).Field(fa.Field).Name()
				}
			}
			if dynName != "" {
				siteName = dynName
			}
		}
		siteName = x.siteWithOrdinal(ins, siteName)
		// the function's own call sites: in its body, or in the body of a closure it defines (textually
		// part of the function; such sites carry no ordinal)
		own := (callerFrame.Fn == x.Fn && callerFrame.Caller == nil) || callerFrame.Fn.Parent() == x.Fn
		if !own {
			// inside an inlined callee only the stated assumptions about the callee apply (they are about
			// the called function, not about the site); assertions, ordinals and ghost updates belong to the
			// function's own call sites
			env := x.siteEnv(st, args, nil)
			for _, cl := range x.siteClauses("assume", siteName) {
				st.Assume(x.evalBool(env, cl.Expr))
			}
			defer func() {
				if st.Frame != nil && st.Frame == callerFrame && !st.Dead && res != nil {
					env := x.siteEnv(st, args, st.Frame.Regs[res])
					for _, cl := range x.siteClauses("assumeafter", siteName) {
						st.Assume(x.evalBool(env, cl.Expr))
					}
				}
			}()
		}
		if own {
			x.siteBefore(st, ins, siteName, args)
			defer func() {
				if os.Getenv("GOVC_DEBUG") != "" {
					fmt.Fprintf(os.Stderr, "deferred site %s frameNil=%v dead=%v\n", siteName, st.Frame == nil, st.Dead)
				}
				if os.Getenv("GOVC_DEBUG") != "" && st.Frame != nil {
					fmt.Fprintf(os.Stderr, "   frame fn %s vs %s\n", st.Frame.Fn, x.Fn)
				}
				if st.Frame != nil && st.Frame == callerFrame && !st.Dead {
					var rv Value
					if res != nil {
						rv = st.Frame.Regs[res]
					}
					x.siteAfter(st, ins, siteName, args, rv)
				} else if st.Frame != nil && !st.Dead && st.Frame.Caller == callerFrame && st.Frame.CallIns == ins {
					// the callee was inlined: run the "after" clauses when its frame returns
					sn, ar := siteName, args
					st.Frame.AfterSite = func(s2 *State, rv Value) { x.siteAfter(s2, ins, sn, ar, rv) }
				}
			}()
		}
	}
	if c.IsInvoke() {
		// receiver must be non-nil (after the site's own assumptions were taken into account)
		recv := st.scalarTerm(args[0], c.Value.Type())
		g := Neq(recv, IntC(0))
		x.oblige(st, "nil", x.anchor(ins, "invoke "+c.Method.Name()), g, "method call on non-nil interface", ins, nil)
		st.Assume(g)
	}
	// special-cased library semantics (sync, atomic, ...)
	if callee != nil {
		if h, ok := specials[FullName(originOf(callee))]; ok {
			prevFrame := st.Frame
			v, handled := h(x, st, ins, callee, args)
			if handled {
				setRes(v)
				return true
			}
			if st.Frame != prevFrame {
				return false // the special pushed a frame (e.g. sync.Once.Do running its function)
			}
		}
	}
	if fc != nil && !fc.Inline {
		if fc.Kind == "extern" {
			x.calledExterns[fc.Name] = true
		} else {
			x.calledContracts[fc.Pkg+"."+fc.Name] = true
		}
		setRes(x.callContract(st, ins, fc, callee, c, args, sig))
		return true
	}
	if callee != nil && callee.Blocks != nil && (x.inRepo(callee) || (fc != nil && fc.Inline) || callee.Parent() != nil) && st.Frame.Depth < 12 {
		x.inlined[FullName(callee)] = true
		x.pushFrame(st, ins, callee, args, binds, res)
		return false
	}
	// interface methods assumed pure (deterministic, side-effect free): uninterpreted functions of the receiver
	if c.IsInvoke() && fc == nil && pureMethods[c.Method.Name()] && len(args) == 1 && sig.Results().Len() == 1 {
		recv := st.scalarTerm(args[0], c.Value.Type())
		x.usedPureMethods[c.Method.Name()] = true
		setRes(x.pureMethodResult(st, recv, c.Method.Name(), sig.Results().At(0).Type()))
		return true
	}
	// user-supplied codecs (drpc.Encoding and friends): assumed not to touch library state
	if c.IsInvoke() && fc == nil && codecMethods[c.Method.Name()] {
		x.usedPureMethods["codec:"+c.Method.Name()] = true
		setRes(x.freshResults(st, sig, "r$"+c.Method.Name()))
		st.bumpAlloc()
		return true
	}
	// package initialisers of dependencies: no effect on the state we model
	if callee != nil && callee.Name() == "init" && !x.inRepo(callee) {
		setRes(nil)
		return true
	}
	// havoc call
	pure := callee != nil && x.isPureExtern(callee)
	if !pure {
		x.note("call to %s without contract: havoc", name)
		x.havocReachable(st, args)
	}
	setRes(x.freshResults(st, sig, "r$"+shortName(name)))
	st.bumpAlloc()
	return true
}

func originOf(fn *ssa.Function) *ssa.Function {
	if o := fn.Origin(); o != nil {
		return o
	}
	return fn
}

func shortName(n string) string {
	if i := strings.LastIndexAny(n, "/"); i >= 0 {
		n = n[i+1:]
	}
	return strings.NewReplacer("(", "", ")", "", "*", "", " ", "").Replace(n)
}

func (x *Exec) freshResults(st *State, sig *types.Signature, prefix string) Value {
	rs := sig.Results()
	switch rs.Len() {
	case 0:
		return nil
	case 1:
		return st.freshValue(prefix, rs.At(0).Type())
	}
	var t TupleV
	for i := 0; i < rs.Len(); i++ {
		t = append(t, st.freshValue(fmt.Sprintf("%s%d", prefix, i), rs.At(i).Type()))
	}
	return t
}

// havocReachable forgets heap and memory if any argument can reach mutable state.
func (x *Exec) havocReachable(st *State, args []Value) {
	reach := false
	for _, a := range args {
		st.markEscaped(a)
		switch v := a.(type) {
		case SliceV, PtrV, FuncV:
			reach = true
		case Scalar:
			if v.Ty != nil && st.isRefType(v.Ty) {
				reach = true
			}
		case StructV:
			reach = true
		}
	}
	if reach {
		st.havocAllHeap()
		st.havocAllMem()
	}
}

func (x *Exec) pushFrame(st *State, ins ssa.Instruction, callee *ssa.Function, args []Value, binds []Value, res ssa.Value) {
	nf := &Frame{Fn: callee, Regs: map[ssa.Value]Value{}, Block: callee.Blocks[0], Caller: st.Frame, CallIns: ins, Depth: st.Frame.Depth + 1}
	if len(args) != len(callee.Params) {
		panic(fmt.Sprintf("arity mismatch calling %s: %d args, %d params", callee, len(args), len(callee.Params)))
	}
	for i, p := range callee.Params {
		nf.Regs[p] = x.coerce(st, args[i], p.Type())
	}
	for i, fv := range callee.FreeVars {
		nf.Regs[fv] = binds[i]
	}
	st.Frame = nf
	// loop head at entry block? (not possible: entry has no preds)
}

func (x *Exec) doReturn(st *State, i *ssa.Return) {
	f := st.Frame
	var vals []Value
	for k, r := range i.Results {
		vals = append(vals, x.coerce(st, x.val(st, r), f.Fn.Signature.Results().At(k).Type()))
	}
	if f.Caller == nil {
		x.atExit(st, i, vals)
		st.Dead = true
		st.Frame = nil
		return
	}
	// pop
	caller := f.Caller
	var rv Value
	switch len(vals) {
	case 0:
	case 1:
		rv = vals[0]
	default:
		rv = TupleV(vals)
	}
	st.Frame = caller
	if f.AfterSite != nil {
		defer f.AfterSite(st, rv)
	}
	switch ci := f.CallIns.(type) {
	case *ssa.Call:
		caller.Regs[ci] = rv
		caller.PC++
	case *ssa.RunDefers:
		// stay on the RunDefers instruction: remaining defers continue
	case *ssa.Defer, *ssa.Go:
		caller.PC++
	default:
		if f.RetTo != nil {
			*f.RetTo = rv
		} else if f.AfterDefers != nil {
			f.AfterDefers(st)
		} else {
			caller.PC++
		}
	}
}

func (x *Exec) doRunDefers(st *State, i *ssa.RunDefers) bool {
	f := st.Frame
	for len(f.Defers) > 0 {
		d := f.Defers[len(f.Defers)-1]
		f.Defers = f.Defers[:len(f.Defers)-1]
		adv := x.invoke(st, i, d.call.Common(), d.fn, d.args, nil)
		if !adv {
			return false // a frame was pushed; we come back to this instruction
		}
		if st.Dead {
			return false
		}
	}
	return true
}

// ---------------------------------------------------------------------------------------------
// builtins

func (x *Exec) builtin(st *State, ins ssa.Instruction, b *ssa.Builtin, c *ssa.CallCommon, args []Value) Value {
	A := st.A
	switch b.Name() {
	case "len":
		switch v := args[0].(type) {
		case SliceV:
			return Scalar{v.Len, tyInt}
		case StringV:
			return Scalar{v.Len, tyInt}
		case Scalar:
			if mt, ok := c.Args[0].Type().Underlying().(*types.Map); ok {
				_ = mt
				n := Fresh("maplen", A.IdxSort())
				st.Assume(A.IdxLe(A.Idx(0), n))
				return Scalar{n, tyInt}
			}
			// channel length
			n := Fresh("chanlen", A.IdxSort())
			st.Assume(A.IdxLe(A.Idx(0), n))
			return Scalar{n, tyInt}
		}
	case "cap":
		switch v := args[0].(type) {
		case SliceV:
			return Scalar{v.Cap, tyInt}
		case Scalar:
			n := Fresh("chancap", A.IdxSort())
			st.Assume(A.IdxLe(A.Idx(0), n))
			return Scalar{n, tyInt}
		}
	case "append":
		return x.doAppend(st, ins, c, args)
	case "copy":
		dst := args[0].(SliceV)
		var sArr, sOff, sLen *Term
		srcKey := ""
		switch s := args[1].(type) {
		case SliceV:
			sArr, sOff, sLen = s.Arr, s.Off, s.Len
		case StringV:
			sArr, sOff, sLen = s.Arr, s.Off, s.Len
			srcKey = "str"
		}
		n := Ite(A.IdxLt(dst.Len, sLen), dst.Len, sLen)
		if srcKey == "str" {
			x.copyBytes(st, "byte", dst.Arr, dst.Off, "str", sArr, sOff, n)
		} else {
			st.memCopy(dst.Arr, dst.Off, sArr, sOff, n, dst.Elem, nil)
		}
		return Scalar{n, tyInt}
	case "delete":
		mt := c.Args[0].Type().Underlying().(*types.Map)
		x.heldCheckMap(st, c.Args[0], ins, true)
		m := st.scalarTerm(args[0], c.Args[0].Type())
		x.mapDelete(st, m, mt, x.mapKeyTerm(st, args[1], mt.Key()))
		return nil
	case "close":
		ch := st.scalarTerm(args[0], c.Args[0].Type())
		closed := st.heapLoad(ch, "chan", tyBool).(Scalar).T
		g := And(Neq(ch, IntC(0)), Not(closed))
		x.oblige(st, "close", x.anchor(ins, "close"), g, "close of a non-nil channel that is not closed", ins, nil)
		st.Assume(g)
		before := st.snapshot()
		st.heapStore(ch, "chan", tyBool, Scalar{TTrue, tyBool})
		st.Events = append(st.Events, "close")
		// closing a monitor-owned channel is a step visible to lock-free readers
		for k, m := range st.monObjs {
			if st.Held[k] != nil && m.mon != nil && len(m.mon.Chans) > 0 {
				x.checkStep(st, before, m, ins, "close")
			}
		}
		return nil
	case "min", "max":
		t := c.Args[0].Type()
		r := st.scalarTerm(args[0], t)
		for k := 1; k < len(args); k++ {
			y := st.scalarTerm(args[k], t)
			lt, _ := A.BinOp(tokenLSS, r, y, t, t)
			if b.Name() == "min" {
				r = Ite(lt, r, y)
			} else {
				r = Ite(lt, y, r)
			}
		}
		return Scalar{r, t}
	case "print", "println":
		return nil
	case "ssa:deferstack":
		return Scalar{IntC(0), types.Typ[types.UnsafePointer]}
	case "recover":
		return Scalar{IntC(0), types.NewInterfaceType(nil, nil)}
	}
	panic("builtin " + b.Name())
}

func (x *Exec) doAppend(st *State, ins ssa.Instruction, c *ssa.CallCommon, args []Value) Value {
	A := st.A
	s := args[0].(SliceV)
	if len(args) < 2 {
		return s
	}
	var sArr, sOff, n *Term
	srcKey := ""
	switch t := args[1].(type) {
	case SliceV:
		sArr, sOff, n = t.Arr, t.Off, t.Len
	case StringV:
		sArr, sOff, n = t.Arr, t.Off, t.Len
		srcKey = "str"
	default:
		panic(fmt.Sprintf("append of %T", args[1]))
	}
	elem := s.Elem
	if elem == nil {
		elem = c.Args[0].Type().Underlying().(*types.Slice).Elem()
	}
	newLen := A.IdxAdd(s.Len, n)
	inPlace := A.IdxLe(newLen, s.Cap)
	x.allocLimit(st, ins, newLen)
	// Both outcomes are written without any ite over memories: the grown copy goes to a fresh
	// backing array (harmless if unused), the in-place write is guarded element-wise.
	id := st.freshID()
	ncap := Fresh("cap", A.IdxSort())
	st.Assume(And(A.IdxLe(newLen, ncap), A.IdxLe(ncap, A.Const(pow2(maxObjBits+1), tyInt))))
	var ls []leaf
	flatten(elem, "", &ls)
	small := n.IsConst() && n.Val.Int64() <= 4
	for _, l := range ls {
		es := st.leafSort(l)
		key := st.memKey(elem, l.suffix)
		m := st.mem(key, es)
		srcM := m
		if srcKey == "str" {
			srcM = st.mem("str", es)
		}
		old := Select(m, s.Arr)
		src := Select(srcM, sArr)
		// (b) fresh array: old contents, then the appended elements
		B := Fresh("grow", SArr(A.IdxSort(), es))
		j := Fresh("j", A.IdxSort())
		if small {
			st.Assume(Forall([]*Term{j}, Implies(And(A.IdxLe(A.Idx(0), j), A.IdxLt(j, s.Len)),
				Eq(Select(B, j), Select(old, A.IdxAdd(s.Off, j)))), []*Term{Select(B, j)}))
			for t := int64(0); t < n.Val.Int64(); t++ {
				B = Store(B, A.IdxAdd(s.Len, A.Idx(t)), Select(src, A.IdxAdd(sOff, A.Idx(t))))
			}
		} else {
			body := And(
				Implies(And(A.IdxLe(A.Idx(0), j), A.IdxLt(j, s.Len)), Eq(Select(B, j), Select(old, A.IdxAdd(s.Off, j)))),
				Implies(And(A.IdxLe(s.Len, j), A.IdxLt(j, newLen)), Eq(Select(B, j), Select(src, A.IdxAdd(sOff, A.IdxSub(j, s.Len))))))
			st.Assume(Forall([]*Term{j}, body, []*Term{Select(B, j)}))
		}
		// (a) in place
		var Ain *Term
		if small {
			Ain = old
			base := A.IdxAdd(s.Off, s.Len)
			vals := make([]*Term, n.Val.Int64())
			for t := range vals {
				vals[t] = Select(src, A.IdxAdd(sOff, A.Idx(int64(t))))
			}
			for t := range vals {
				at := A.IdxAdd(base, A.Idx(int64(t)))
				Ain = Store(Ain, at, Ite(inPlace, vals[t], Select(old, at)))
			}
		} else {
			Ain = Fresh("app", SArr(A.IdxSort(), es))
			k := Fresh("j", A.IdxSort())
			base := A.IdxAdd(s.Off, s.Len)
			in := And(inPlace, A.IdxLe(base, k), A.IdxLt(k, A.IdxAdd(base, n)))
			st.Assume(Forall([]*Term{k}, Eq(Select(Ain, k), Ite(in, Select(src, A.IdxAdd(sOff, A.IdxSub(k, base))), Select(old, k))),
				[]*Term{Select(Ain, k)}))
		}
		if inPlace.IsTrue() {
			st.setMem(key, Store(m, s.Arr, Ain))
		} else {
			st.setMem(key, Store(Store(m, id, B), s.Arr, Ain))
		}
	}
	if inPlace.IsTrue() {
		return SliceV{Arr: s.Arr, Off: s.Off, Len: newLen, Cap: s.Cap, Elem: elem}
	}
	// name the merged header so later terms mention atoms instead of nested ites
	name := func(prefix string, t *Term) *Term {
		if t.Op != "ite" {
			return t
		}
		c := Fresh(prefix, t.Sort)
		st.Assume(Eq(c, t))
		return c
	}
	return SliceV{Arr: name("app$arr", Ite(inPlace, s.Arr, id)), Off: name("app$off", Ite(inPlace, s.Off, A.Idx(0))), Len: newLen,
		Cap: name("app$cap", Ite(inPlace, s.Cap, ncap)), Elem: elem}
}

// allocLimit is a hook for the C13 allocation-limit obligations (configured per function).
func (x *Exec) allocLimit(st *State, ins ssa.Instruction, n *Term) {}

// ---------------------------------------------------------------------------------------------
// modular call

func (x *Exec) callContract(st *State, ins ssa.Instruction, fc *FuncContract, callee *ssa.Function, c *ssa.CallCommon, args []Value, sig *types.Signature) Value {
	// bind parameter names
	vars := map[string]Value{}
	var pnames []string
	var ptypes []types.Type
	if callee != nil && fc.Kind == "func" {
		for _, p := range callee.Params {
			pnames = append(pnames, p.Name())
			ptypes = append(ptypes, p.Type())
		}
	} else {
		// extern: names from the declared signature; receiver first if method
		for _, p := range fc.Params {
			pnames = append(pnames, p.Name)
		}
		if len(pnames) != len(args) {
			// allow "recv" to be implicit
			if len(pnames)+1 == len(args) {
				pnames = append([]string{"recv"}, pnames...)
			} else {
				panic(fmt.Sprintf("extern %s: %d params declared, %d args", fc.Name, len(fc.Params), len(args)))
			}
		}
		if c.IsInvoke() {
			ptypes = append(ptypes, c.Value.Type())
			for _, a := range c.Args {
				ptypes = append(ptypes, a.Type())
			}
		} else {
			for _, a := range c.Args {
				ptypes = append(ptypes, a.Type())
			}
		}
	}
	for i, n := range pnames {
		if i < len(args) {
			v := args[i]
			if i < len(ptypes) {
				v = x.coerce(st, v, ptypes[i])
			}
			vars[n] = v
		}
	}
	label := shortName(fc.Name)
	site := x.anchor(ins, "call "+label)
	pre := st.snapshot()
	env := &Env{X: x, St: st, Old: pre, Vars: vars, OldVars: vars, FC: fc, PkgPath: fc.Pkg}
	if fc.Pkg == "*" {
		env.PkgPath = x.Pkg
	}
	for i, r := range fc.Requires {
		g := x.evalBool(env, r.Expr)
		x.oblige(st, "pre", site+":"+clauseLabel(r, i), g, fc.Name+" requires "+r.Text, ins, r.Props)
		st.Assume(g)
	}
	// havoc the frame; monitor objects reachable through the arguments see interference
	for _, a := range args {
		st.markEscaped(a) // a local whose address is passed may be assigned by any callee that modifies "*"
	}
	x.applyModifies(st, env, fc, args)
	for i, a := range args {
		if i < len(ptypes) {
			if m, ok := x.monObjOf(st, a, ptypes[i]); ok && st.Held[m.key()] == nil {
				x.interfere(st, m, false)
			}
		}
	}
	if !fc.Pure {
		holds := false
		for _, r := range fc.Requires {
			if strings.Contains(r.Text, "held(") {
				holds = true
			}
		}
		var ground []*Term
		for i, a := range args {
			if i < len(ptypes) {
				if sc, ok := a.(Scalar); ok && st.isRefType(ptypes[i]) {
					ground = append(ground, sc.T)
				}
				if pv, ok := a.(PtrV); ok && pv.Ref != nil {
					ground = append(ground, pv.Ref)
				}
			}
		}
		_ = holds
		x.interfereAll(st, false, ground...)
	}
	st.bumpAlloc()
	// results
	var res Value
	rs := sig.Results()
	rnames := make([]string, rs.Len())
	for i := 0; i < rs.Len(); i++ {
		rnames[i] = rs.At(i).Name()
		if fc.Kind == "extern" && i < len(fc.Results) && fc.Results[i].Name != "" {
			rnames[i] = fc.Results[i].Name
		}
		if rnames[i] == "" || rnames[i] == "_" {
			if rs.Len() == 1 {
				rnames[i] = "result"
			} else {
				rnames[i] = fmt.Sprintf("result%d", i)
			}
		}
	}
	var rvals []Value
	for i := 0; i < rs.Len(); i++ {
		v := st.freshValue("r$"+label+"$"+rnames[i], rs.At(i).Type())
		// a pure function whose value has a name in the specifications (uninterp fn_<Name>):
		// equal arguments give equal results
		if sf, ok := x.P.CS.Specs["fn_"+fc.Name]; ok && fc.Pure && sf.Uninterp && rs.Len() == 1 && len(args) == len(sf.Params) {
			var ts []*Term
			okArgs := true
			for k, a := range args {
				sc, isSc := x.coerce(st, a, ptypes[k]).(Scalar)
				if !isSc {
					okArgs = false
					break
				}
				ts = append(ts, sc.T)
			}
			if okArgs {
				v = Scalar{App("spec$"+sf.Name, st.A.SortOf(rs.At(i).Type()), ts...), rs.At(i).Type()}
				st.assumeTypeInv(v, rs.At(i).Type())
			}
		}
		rvals = append(rvals, v)
	}
	post := map[string]Value{}
	for k, v := range vars {
		post[k] = v
	}
	for i, n := range rnames {
		post[n] = rvals[i]
		if rs.Len() == 1 {
			post["result"] = rvals[i]
		}
	}
	env2 := &Env{X: x, St: st, Old: pre, Vars: post, OldVars: vars, FC: fc, PkgPath: env.PkgPath}
	// functional clauses "res == expr" define the result directly (no fresh symbol, no equation)
	defined := map[*Clause]bool{}
	for _, e := range fc.Ensures {
		ex := e.Expr
		if e.Internal || ex.Kind != "binary" || ex.Op != "==" || ex.Args[0].Kind != "ident" {
			continue
		}
		ri := -1
		for i, n := range rnames {
			if n == ex.Args[0].Name || (rs.Len() == 1 && ex.Args[0].Name == "result") {
				ri = i
			}
		}
		if ri < 0 || mentionsIdent(substExpr(ex.Args[1], fc.Lets), ex.Args[0].Name) {
			continue
		}
		v := x.materialize(env2, x.eval(env2, substExpr(ex.Args[1], fc.Lets)))
		v = x.coerceSpec(st, v, rs.At(ri).Type())
		if v == nil {
			continue
		}
		rvals[ri] = v
		post[rnames[ri]] = v
		if rs.Len() == 1 {
			post["result"] = v
		}
		defined[e] = true
	}
	for _, e := range fc.Ensures {
		if defined[e] || e.Internal {
			continue
		}
		st.Assume(x.evalBool(env2, e.Expr))
	}
	switch len(rvals) {
	case 0:
		res = nil
	case 1:
		res = rvals[0]
	default:
		res = TupleV(rvals)
	}
	return res
}

// applyModifies havocs what the callee's frame condition allows it to change.
func (x *Exec) applyModifies(st *State, env *Env, fc *FuncContract, args []Value) {
	if fc.ModAll {
		st.havocAllHeap()
		st.havocAllMem()
		return
	}
	for _, e := range fc.Modifies {
		switch {
		case e.Kind == "call" && e.Args[0].Kind == "ident" && e.Args[0].Name == "mem":
			v := x.eval(env, e.Args[1])
			sv, ok := v.(SliceV)
			if !ok {
				panic("modifies mem(x): x must be a slice")
			}
			st.memHavocRange(sv.Arr, sv.Off, st.A.IdxAdd(sv.Off, sv.Len), sv.Elem)
		case e.Kind == "call" && e.Args[0].Kind == "ident" && e.Args[0].Name == "memcap":
			v := x.eval(env, e.Args[1])
			sv := v.(SliceV)
			st.memHavocRange(sv.Arr, sv.Off, st.A.IdxAdd(sv.Off, sv.Cap), sv.Elem)
		case e.Kind == "sel":
			base := x.eval(env, e.Args[0])
			x.havocField(st, base, e.Name)
		case e.Kind == "ident" && e.Name == "heap":
			st.havocAllHeap()
		case e.Kind == "ident" && e.Name == "maps":
			st.havocHeapWhere(func(k string) bool { return strings.HasPrefix(k, "map:") })
		case e.Kind == "ident" && e.Name == "allmem":
			st.havocAllMem()
		default:
			panic("unsupported modifies target " + e.String())
		}
	}
}

func (x *Exec) havocField(st *State, base Value, field string) {
	ref, root, sty := x.structPtr(st, base)
	if ref == nil {
		panic(fmt.Sprintf("modifies x.%s: x is not a pointer to a struct (%T)", field, base))
	}
	for i := 0; i < sty.NumFields(); i++ {
		if sty.Field(i).Name() == field {
			st.havocHeapAt(ref, root+"."+field, sty.Field(i).Type())
			return
		}
	}
	panic("modifies: no field " + field)
}

// structPtr decomposes a pointer-to-struct value into (ref, heap root, struct type).
func (x *Exec) structPtr(st *State, v Value) (*Term, string, *types.Struct) {
	switch p := v.(type) {
	case Scalar:
		if pt, ok := p.Ty.Underlying().(*types.Pointer); ok {
			if s, ok := pt.Elem().Underlying().(*types.Struct); ok {
				return p.T, typeKey(pt.Elem()), s
			}
		}
	case PtrV:
		if p.Ref != nil {
			if s, ok := p.HTy.Underlying().(*types.Struct); ok {
				return p.Ref, p.Root, s
			}
		}
	}
	return nil, "", nil
}

// ---------------------------------------------------------------------------------------------
// function exit

func (x *Exec) atExit(st *State, ret *ssa.Return, vals []Value) {
	fc := x.FC
	x.retCount++
	if fc == nil {
		return
	}
	vars := map[string]Value{}
	for k, v := range x.ParamVals {
		vars[k] = v
		vars[k+"0"] = v
	}
	rs := x.Fn.Signature.Results()
	for i := 0; i < rs.Len(); i++ {
		n := rs.At(i).Name()
		if n == "" || n == "_" {
			if rs.Len() == 1 {
				n = "result"
			} else {
				n = fmt.Sprintf("result%d", i)
			}
		}
		vars[n] = vals[i]
		if rs.Len() == 1 {
			vars["result"] = vals[i]
		}
	}
	for k, v := range st.Ghost {
		if _, ok := vars[k]; !ok {
			vars[k] = v
		}
	}
	x.lastResults = nil
	for i := 0; i < rs.Len(); i++ {
		n := rs.At(i).Name()
		if n == "" || n == "_" {
			n = fmt.Sprintf("result%d", i)
		}
		x.lastResults = append(x.lastResults, replayParam{Name: n, Ty: rs.At(i).Type(), V: vals[i]})
	}
	defer func() { x.lastResults = nil }()
	env := &Env{X: x, St: st, Old: st.Old, Vars: vars, OldVars: x.ParamVals, FC: fc, PkgPath: x.Pkg}
	if os.Getenv("GOVC_DEBUG") != "" {
		for k, v := range st.Ghost {
			fmt.Fprintf(os.Stderr, "exit ghost %s = %v\n", k, v)
		}
	}
	for i, e := range fc.Ensures {
		g := x.evalBool(env, e.Expr)
		if os.Getenv("GOVC_DEBUG") != "" {
			fmt.Fprintf(os.Stderr, "exit clause %s => %s\n", e.Expr, trunc(g.String(), 300))
		}
		lab := clauseLabel(e, i)
		x.postSeen[lab]++
		x.oblige(st, "post", lab, g, e.Text, ret, e.Props)
	}
	x.checkFrame(st, env, ret)
	x.exitChecks(st, env, ret)
	x.postStability(st, vars, ret)
}

// frameSpec is the declared modifies set of the function under contract, evaluated at entry.
type frameSpec struct {
	all      bool
	allHeap  bool
	allMem   bool
	heapObj  []frameObj
	heapType map[string]bool
	memRegs  []frameReg
}

type frameObj struct {
	ref  *Term
	root string
}

type frameReg struct {
	arr, lo, hi *Term
}

func (x *Exec) frame() *frameSpec {
	if x.frameCache != nil {
		return x.frameCache
	}
	fc := x.FC
	fs := &frameSpec{heapType: map[string]bool{}}
	x.frameCache = fs
	if fc == nil || fc.ModAll || fc.Kind != "func" {
		fs.all = true
		return fs
	}
	old := x.entry
	A := old.A
	oenv := &Env{X: x, St: old, Old: old, Vars: x.ParamVals, OldVars: x.ParamVals, FC: fc, PkgPath: x.Pkg}
	for _, e := range fc.Modifies {
		switch {
		case e.Kind == "sel":
			if e.Args[0].Kind == "ident" {
				if _, isParam := x.ParamVals[e.Args[0].Name]; !isParam {
					if pk := x.P.ByPath[x.Pkg]; pk != nil {
						if o := pk.Types.Scope().Lookup(e.Args[0].Name); o != nil {
							if _, ok := o.(*types.TypeName); ok {
								fs.heapType[typeKey(o.Type())+"."+e.Name] = true
								continue
							}
						}
					}
				}
			}
			base := x.eval(oenv, e.Args[0])
			ref, root, _ := x.structPtr(old, base)
			if ref != nil {
				fs.heapObj = append(fs.heapObj, frameObj{ref, root + "." + e.Name})
			}
		case e.Kind == "call" && e.Args[0].Kind == "ident" && (e.Args[0].Name == "mem" || e.Args[0].Name == "memcap"):
			if sv, ok := x.eval(oenv, e.Args[1]).(SliceV); ok {
				hi := A.IdxAdd(sv.Off, sv.Len)
				if e.Args[0].Name == "memcap" {
					hi = A.IdxAdd(sv.Off, sv.Cap)
				}
				fs.memRegs = append(fs.memRegs, frameReg{sv.Arr, sv.Off, hi})
			}
		case e.Kind == "ident" && e.Name == "heap":
			fs.allHeap = true
		case e.Kind == "ident" && e.Name == "maps":
			fs.heapType["map:"] = true
		case e.Kind == "ident" && e.Name == "allmem":
			fs.allMem = true
		}
	}
	return fs
}

func keyUnder(k, root string) bool {
	if root == "map:" {
		return strings.HasPrefix(k, "map:")
	}
	return k == root || strings.HasPrefix(k, root+".") || strings.HasPrefix(k, root+"#")
}

// heapMayChange: condition under which field array k may differ at object o.
func (fs *frameSpec) heapMayChange(k string, o *Term) *Term {
	if fs.all || fs.allHeap {
		return TTrue
	}
	for f := range fs.heapType {
		if keyUnder(k, f) || (f == "map:" && strings.HasPrefix(k, "map:")) {
			return TTrue
		}
	}
	var exc []*Term
	for _, a := range fs.heapObj {
		if keyUnder(k, a.root) {
			exc = append(exc, Eq(o, a.ref))
		}
	}
	return Or(exc...)
}

func (fs *frameSpec) memMayChange(A *Arith, k string, id, j *Term) *Term {
	if fs.all || fs.allMem {
		return TTrue
	}
	if k != "byte" {
		return TFalse
	}
	var exc []*Term
	for _, r := range fs.memRegs {
		exc = append(exc, And(Eq(id, r.arr), A.IdxLe(r.lo, j), A.IdxLt(j, r.hi)))
	}
	return Or(exc...)
}

func frameExempt(k string) bool {
	// statistics counters are not part of any contract
	if strings.Contains(k, "/drpcstats.Stats.") {
		return true
	}
	return strings.HasPrefix(k, "box:") || strings.HasPrefix(k, "chan") || strings.HasPrefix(k, "gmap:")
}

// checkFrame: everything outside the declared modifies set is unchanged between base and st.
// kind/prefix name the obligations ("frame" at exit, "inv-preserve" at loop back edges).
func (x *Exec) checkFrame(st *State, env *Env, ret ssa.Instruction) {
	x.checkFrameAgainst(st, st.Old, "frame", "", ret)
}

func (x *Exec) checkFrameAgainst(st, base *State, kind, prefix string, ins ssa.Instruction) {
	fs := x.frame()
	if fs.all {
		return
	}
	A := st.A
	entryBound := x.entry.allocBound()
	keys := make([]string, 0, len(st.Heap))
	for k := range st.Heap {
		keys = append(keys, k)
	}
	sort.Strings(keys)
	for _, k := range keys {
		h := st.Heap[k]
		h0, ok := base.Heap[k]
		if !ok {
			h0 = base.lazyVersion(false, k, h.Sort)
		}
		if h == h0 || frameExempt(k) || strings.HasPrefix(k, "global:") || x.volatileKeys[k] {
			continue
		}
		if x.keyIsProtected(k) {
			// protected fields are volatile (other goroutines change them), except on the instances whose
			// lock this function holds from entry to exit: there its own modifies clause is binding, so
			// that callers holding the lock can rely on it
			for _, m := range x.heldEntryObjs {
				root := m.root
				if m.lockRoot != "" {
					if j := strings.LastIndex(m.lockRoot, "."); j > 0 {
						root = m.lockRoot[:j]
					}
				}
				if mon := x.monitorOfType(x.rootType(root)); mon == nil || !keyUnder(k, root) {
					continue
				}
				may := fs.heapMayChange(k, m.ref)
				if may.IsTrue() {
					continue
				}
				g := Implies(Not(may), Eq(Select(h, m.ref), Select(h0, m.ref)))
				x.oblige(st, kind, prefix+"heap-held:"+k, g, "protected field "+k+" of the instance locked at entry unchanged outside modifies", ins, nil)
			}
			continue
		}
		o := Fresh("o", SInt)
		may := fs.heapMayChange(k, o)
		if may.IsTrue() {
			continue
		}
		// objects allocated during the call are not part of the frame
		g := Implies(And(ILe(o, entryBound), Not(may)), Eq(Select(h, o), Select(h0, o)))
		x.oblige(st, kind, prefix+"heap:"+k, g, "field "+k+" unchanged outside modifies", ins, nil)
	}
	mkeys := make([]string, 0, len(st.Mems))
	for k := range st.Mems {
		mkeys = append(mkeys, k)
	}
	sort.Strings(mkeys)
	for _, k := range mkeys {
		if k == "str" {
			continue
		}
		m := st.Mems[k]
		m0, ok := base.Mems[k]
		if !ok {
			m0 = base.lazyVersion(true, k, m.Sort)
		}
		if m == m0 {
			continue
		}
		id := Fresh("id", SInt)
		j := Fresh("j", A.IdxSort())
		may := fs.memMayChange(A, k, id, j)
		if may.IsTrue() {
			continue
		}
		g := Implies(And(ILe(IntC(0), id), ILe(id, entryBound), Not(may)),
			Eq(Select(Select(m, id), j), Select(Select(m0, id), j)))
		x.oblige(st, kind, prefix+"mem:"+k, g, "memory "+k+" unchanged outside modifies", ins, nil)
	}
}

// havocFramed forgets heap keys / memories at a loop head of the function under contract, but only
// inside the function's declared frame: outside it nothing can change (checked at every back edge).
func (x *Exec) havocFramed(st *State, heapKeys []string, allHeap bool, memKeys []string, allMem bool) {
	fs := x.frame()
	A := st.A
	entryBound := x.entry.allocBound()
	hk := append([]string(nil), heapKeys...)
	hcovers := func(k string) bool {
		if allHeap {
			return true
		}
		for _, pk := range hk {
			if keyUnder(k, pk) {
				return true
			}
		}
		return false
	}
	hconstrain := func(s *State, k string, h, nh *Term) {
		if !fs.all && x.keyIsProtected(k) {
			// the instances locked from entry to exit change only as the modifies clause says
			for _, m := range x.heldEntryObjs {
				root := m.root
				if m.lockRoot != "" {
					if j := strings.LastIndex(m.lockRoot, "."); j > 0 {
						root = m.lockRoot[:j]
					}
				}
				if !keyUnder(k, root) {
					continue
				}
				if may := fs.heapMayChange(k, m.ref); !may.IsTrue() {
					s.Assume(Implies(Not(may), Eq(Select(nh, m.ref), Select(h, m.ref))))
				}
			}
		}
		if !fs.all && !frameExempt(k) && !strings.HasPrefix(k, "global:") && !x.keyIsProtected(k) {
			o := Fresh("o", SInt)
			may := fs.heapMayChange(k, o)
			if !may.IsTrue() {
				s.Assume(Forall([]*Term{o}, Implies(And(ILe(o, entryBound), Not(may)), Eq(Select(nh, o), Select(h, o))),
					[]*Term{Select(nh, o)}))
			}
		}
	}
	if allHeap || len(hk) > 0 {
		ev := st.logHavoc(false, hcovers, hconstrain)
		keys := make([]string, 0, len(st.Heap))
		for k := range st.Heap {
			if ev.covers(k) {
				keys = append(keys, k)
			}
		}
		sort.Strings(keys)
		for _, k := range keys {
			h := st.Heap[k]
			nh := ev.version(k, h.Sort)
			hconstrain(st, k, h, nh)
			st.Heap[k] = nh
		}
	}
	mk := append([]string(nil), memKeys...)
	mcovers := func(k string) bool {
		if k == "str" {
			return false
		}
		if allMem {
			return true
		}
		for _, m := range mk {
			if m == k {
				return true
			}
		}
		return false
	}
	mconstrain := func(s *State, k string, m, nm *Term) {
		if !fs.all {
			id := Fresh("id", SInt)
			j := Fresh("j", A.IdxSort())
			may := fs.memMayChange(A, k, id, j)
			if !may.IsTrue() {
				s.Assume(Forall([]*Term{id, j}, Implies(And(ILe(IntC(0), id), ILe(id, entryBound), Not(may)),
					Eq(Select(Select(nm, id), j), Select(Select(m, id), j))), []*Term{Select(Select(nm, id), j)}))
			}
		}
	}
	if allMem || len(mk) > 0 {
		ev := st.logHavoc(true, mcovers, mconstrain)
		keys := make([]string, 0, len(st.Mems))
		for k := range st.Mems {
			if mcovers(k) {
				keys = append(keys, k)
			}
		}
		sort.Strings(keys)
		for _, k := range keys {
			m := st.Mems[k]
			nm := ev.version(k, m.Sort)
			mconstrain(st, k, m, nm)
			st.Mems[k] = nm
		}
	}
	x.entryAssumptions(st, nil)
}

// ---------------------------------------------------------------------------------------------
// call-site clauses and ghost updates of the function under contract

func (x *Exec) siteEnv(st *State, args []Value, rv Value) *Env {
	env := x.envAt(st)
	for i, a := range args {
		env.Vars[fmt.Sprintf("arg%d", i)] = a
	}
	if rv != nil {
		env.Vars["ret"] = rv
		if t, ok := rv.(TupleV); ok {
			for i, v := range t {
				env.Vars[fmt.Sprintf("ret%d", i)] = v
			}
		}
	}
	return env
}

// siteWithOrdinal numbers the call sites of one callee in source order: "New#2". Clauses may be
// attached to "New" (every site) or to "New#2" (one site).
func (x *Exec) siteWithOrdinal(ins ssa.Instruction, name string) string {
	if x.callOrd == nil {
		x.callOrd = map[ssa.Instruction]string{}
		type site struct {
			ins  ssa.Instruction
			name string
		}
		var sites []site
		for _, b := range x.Fn.Blocks {
			for _, i := range b.Instrs {
				ci, ok := i.(ssa.CallInstruction)
				if !ok {
					continue
				}
				c := ci.Common()
				n := ""
				switch {
				case c.IsInvoke():
					n = c.Method.Name()
				case c.StaticCallee() != nil:
					n = FuncName(originOf(c.StaticCallee()))
				default:
					// a local closure variable assigned exactly once: `write := func(...) {...}; write(a, b)`
					if fn := singleClosureOf(c.Value); fn != nil {
						n = FuncName(originOf(fn))
					} else {
						continue
					}
				}
				sites = append(sites, site{i, n})
			}
		}
		sort.SliceStable(sites, func(a, b int) bool { return sites[a].ins.Pos() < sites[b].ins.Pos() })
		cnt := map[string]int{}
		for _, s := range sites {
			cnt[s.name]++
			x.callOrd[s.ins] = fmt.Sprintf("%s#%d", s.name, cnt[s.name])
		}
	}
	if n, ok := x.callOrd[ins]; ok {
		return n
	}
	return name
}

// singleClosureOf: v is a load of a local variable whose only store is a closure literal.
func singleClosureOf(v ssa.Value) *ssa.Function {
	u, ok := v.(*ssa.UnOp)
	if !ok {
		return nil
	}
	cell, ok := u.X.(*ssa.Alloc)
	if !ok || cell.Referrers() == nil {
		return nil
	}
	var fn *ssa.Function
	for _, r := range *cell.Referrers() {
		if st, ok := r.(*ssa.Store); ok && st.Addr == cell {
			mc, ok := st.Val.(*ssa.MakeClosure)
			if !ok || fn != nil {
				return nil
			}
			fn, _ = mc.Fn.(*ssa.Function)
		}
	}
	return fn
}

func (x *Exec) siteClauses(kind, name string) []*Clause {
	cs := x.FC.Sites[kind+":"+name]
	if i := strings.Index(name, "#"); i > 0 {
		cs = append(append([]*Clause{}, x.FC.Sites[kind+":"+name[:i]]...), cs...)
	}
	return cs
}

// coverAssume: an assumed call-site clause must leave the path satisfiable somewhere (an assumption that
// contradicts every path it is applied on silently removes those paths from the proof). At most three
// instances per clause are emitted; the report accepts the clause if any instance is satisfiable.
func (x *Exec) coverAssume(st *State, tag string, cl *Clause) {
	if st.Dead || x.specEval > 0 {
		return
	}
	if x.assumeCovers == nil {
		x.assumeCovers = map[*Clause]int{}
	}
	if x.assumeCovers[cl] >= 3 {
		return
	}
	x.assumeCovers[cl]++
	// quantified facts (interference guarantees, copy axioms) are left out of the reachability query:
	// finding a model with them is what makes solvers give up, and a contradiction between an assumed
	// clause and the path is a ground matter
	var ground []*Term
	for _, a := range st.AssumeList() {
		if !containsQuant(a, map[*Term]bool{}) {
			ground = append(ground, a)
		}
	}
	x.Obls = append(x.Obls, &Obligation{Name: x.funcLabel() + ":cover:" + tag, Kind: "cover", Func: x.funcLabel(),
		Assumes: ground, Goal: TFalse, Text: "the assumption '" + cl.Text + "' leaves its path satisfiable", Cover: true, Props: cl.Props})
}

func containsQuant(t *Term, seen map[*Term]bool) bool {
	if t == nil || seen[t] {
		return false
	}
	seen[t] = true
	if t.Op == "forall" || t.Op == "exists" {
		return true
	}
	for _, a := range t.Args {
		if containsQuant(a, seen) {
			return true
		}
	}
	return false
}

// siteReachedObligations: a call-site assertion that no path evaluates is vacuous (the call it is
// anchored at was removed or renamed, or every path to it died): one obligation per clause says it
// was evaluated at least once.
func (x *Exec) siteReachedObligations() {
	if x.FC == nil {
		return
	}
	var keys []string
	for k := range x.FC.Sites {
		if strings.HasPrefix(k, "assert:") || strings.HasPrefix(k, "assertafter:") {
			keys = append(keys, k)
		}
	}
	for gi := range x.FC.Ghosts {
		g := x.FC.Ghosts[gi]
		if !strings.HasPrefix(g.At, "call:") && !strings.HasPrefix(g.At, "after:") {
			continue
		}
		o := &Obligation{Name: fmt.Sprintf("%s:ghost-reached:%s:%s#%d", x.funcLabel(), g.At, g.LHS, gi), Kind: "ghost-reached",
			Func: x.funcLabel(), Goal: TTrue, Status: "unsat", Solver: "front-end",
			Text: "the ghost update '" + g.Text + "' is executed on some path (its anchor exists)"}
		if x.ghostSeen[g] == 0 {
			o.Goal, o.Status = TFalse, "unreached"
			o.Model = "no explored path executes this ghost update: the call it is anchored at is gone or unreachable"
		}
		x.Obls = append(x.Obls, o)
	}
	sort.Strings(keys)
	for _, k := range keys {
		for i, cl := range x.FC.Sites[k] {
			o := &Obligation{Name: x.funcLabel() + ":site-reached:" + k[strings.Index(k, ":")+1:] + ":" + clauseLabel(cl, i), Kind: "site-reached",
				Func: x.funcLabel(), Props: cl.Props, Goal: TTrue, Status: "unsat", Solver: "front-end",
				Text: "the call site of the assertion '" + cl.Text + "' is reached on some path"}
			if x.siteSeen[cl] == 0 {
				o.Goal, o.Status = TFalse, "unreached"
				o.Model = "no explored path evaluates this call-site assertion: the call it is anchored at is gone or unreachable"
			}
			x.Obls = append(x.Obls, o)
		}
	}
}

func (x *Exec) siteBefore(st *State, ins ssa.Instruction, name string, args []Value) {
	env := x.siteEnv(st, args, nil)
	for i, cl := range x.siteClauses("assert", name) {
		x.siteSeen[cl]++
		g := x.evalBool(env, cl.Expr)
		x.oblige(st, "site", name+":"+clauseLabel(cl, i), g, cl.Text, ins, cl.Props)
	}
	for i, cl := range x.siteClauses("assume", name) {
		st.Assume(x.evalBool(env, cl.Expr))
		x.coverAssume(st, "assume:"+name+":"+clauseLabel(cl, i), cl)
	}
	x.runGhosts(st, env, "call:"+name)
}

func (x *Exec) siteAfter(st *State, ins ssa.Instruction, name string, args []Value, rv Value) {
	env := x.siteEnv(st, args, rv)
	for i, cl := range x.siteClauses("assertafter", name) {
		x.siteSeen[cl]++
		g := x.evalBool(env, cl.Expr)
		x.oblige(st, "site", "after:"+name+":"+clauseLabel(cl, i), g, cl.Text, ins, cl.Props)
		st.Assume(g)
	}
	for i, cl := range x.siteClauses("assumeafter", name) {
		st.Assume(x.evalBool(env, cl.Expr))
		x.coverAssume(st, "assumeafter:"+name+":"+clauseLabel(cl, i), cl)
	}
	x.runGhosts(st, env, "after:"+name)
}

func (x *Exec) runGhosts(st *State, env *Env, anchor string) {
	if os.Getenv("GOVC_DEBUG") != "" {
		fmt.Fprintf(os.Stderr, "runGhosts %s\n", anchor)
	}
	for gi := range x.FC.Ghosts {
		g := x.FC.Ghosts[gi]
		if g.At != anchor {
			if i := strings.Index(anchor, "#"); i < 0 || g.At != anchor[:i] {
				continue
			}
		}
		x.ghostSeen[g]++
		e := g.Stmt
		if len(x.FC.Lets) > 0 {
			e = substExpr(e, x.FC.Lets)
		}
		v := x.materialize(env, x.eval(env, e))
		if strings.Contains(g.LHS, "(") {
			lhs, err := ParseExpr(g.LHS)
			if err != nil || lhs.Kind != "call" || x.P.CS.GhostMaps[lhs.Args[0].Name] == nil {
				x.fail("ghost update: %s is not a ghost map access", g.LHS)
			}
			x.ghostMapStore(env, lhs, v)
			continue
		}
		if c, ok := v.(ConstV); ok {
			if st.A.Mode == ModeInt {
				v = Scalar{IntBig(c.V), tyMath}
			} else {
				v = Scalar{st.A.Const(c.V, tyInt), tyInt}
			}
		}
		st.Ghost[g.LHS] = v
		env.Vars[g.LHS] = v
	}
}

func mentionsIdent(e *Expr, name string) bool {
	if e == nil {
		return false
	}
	if e.Kind == "ident" && e.Name == name {
		return true
	}
	for _, a := range e.Args {
		if mentionsIdent(a, name) {
			return true
		}
	}
	return false
}

// coerceSpec converts a spec value to the representation of Go type t (nil if shapes differ).
func (x *Exec) coerceSpec(st *State, v Value, t types.Type) Value {
	switch u := t.Underlying().(type) {
	case *types.Slice:
		if sv, ok := v.(SliceV); ok {
			return sv
		}
		if v == nil {
			return st.zeroValue(t)
		}
	case *types.Struct:
		if sv, ok := v.(StructV); ok {
			return sv
		}
	case *types.Basic:
		if u.Info()&types.IsString != 0 {
			if sv, ok := v.(StringV); ok {
				return sv
			}
			return nil
		}
		switch s := v.(type) {
		case ConstV:
			return Scalar{st.A.Const(s.V, t), t}
		case Scalar:
			if s.T.Sort == st.A.SortOf(t) {
				if isIntType(t) && isIntType(s.Ty) && !isMath(s.Ty) {
					return Scalar{st.A.Convert(s.T, s.Ty, t), t}
				}
				if isMath(s.Ty) {
					return nil // a mathematical value may be out of range: keep it as an assumption
				}
				return Scalar{s.T, t}
			}
		}
	default:
		switch s := v.(type) {
		case Scalar:
			return Scalar{s.T, t}
		case nil:
			return st.zeroValue(t)
		}
	}
	return nil
}

var codecMethods = map[string]bool{"Marshal": true, "Unmarshal": true, "MarshalAppend": true, "JSONMarshal": true, "JSONUnmarshal": true}

var pureMethods = map[string]bool{"Error": true, "Code": true, "Cause": true, "Unwrap": true, "String": true,
	"Temporary": true, "Timeout": true, "Closed": true, "Unblocked": true}

// pureMethodResult: the value of a pure method is an uninterpreted function of the receiver.
func (x *Exec) pureMethodResult(st *State, recv *Term, name string, rt types.Type) Value {
	var ls []leaf
	flatten(rt, "", &ls)
	ts := make([]*Term, len(ls))
	for i, l := range ls {
		ts[i] = App("m$"+name+l.suffix, st.leafSort(l), recv)
	}
	v := st.fromTerms(rt, ts)
	st.assumeTypeInv(v, rt)
	return v
}

// runStraight executes a branch-free function synchronously (used for getters of boxed values).
func (x *Exec) runStraight(st *State, fn *ssa.Function, args []Value) (res Value, ok bool) {
	if fn.Blocks == nil || len(fn.Blocks) != 1 || len(fn.Params) != len(args) {
		return nil, false
	}
	for _, ins := range fn.Blocks[0].Instrs {
		switch ins.(type) {
		case *ssa.If, *ssa.Panic, *ssa.Go, *ssa.Defer, *ssa.Select, *ssa.MakeClosure:
			return nil, false
		case *ssa.Call:
			c := ins.(*ssa.Call).Common()
			if b, isB := c.Value.(*ssa.Builtin); isB && b.Name() == "ssa:deferstack" {
				continue
			}
			if !(c.IsInvoke() && pureMethods[c.Method.Name()] && len(c.Args) == 0) {
				return nil, false
			}
		}
	}
	caller := st.Frame
	var out Value
	got := false
	var slot Value
	nf := &Frame{Fn: fn, Regs: map[ssa.Value]Value{}, Block: fn.Blocks[0], Caller: caller, Depth: caller.Depth + 1, RetTo: &slot}
	for i, p := range fn.Params {
		nf.Regs[p] = args[i]
	}
	st.Frame = nf
	defer func() {
		if r := recover(); r != nil {
			if os.Getenv("GOVC_DEBUG") != "" {
				fmt.Fprintf(os.Stderr, "runStraight %s: %v\n", fn, r)
			}
			st.Frame = caller
			res, ok = nil, false
		}
	}()
	for steps := 0; st.Frame == nf && !st.Dead && steps < 200; steps++ {
		x.step(st, nf.Block.Instrs[nf.PC])
	}
	if st.Frame == caller && !st.Dead {
		out, got = slot, true
	}
	st.Frame = caller
	return out, got
}

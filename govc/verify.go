package main

// Top level: verify one function under contract, or one lemma.

import (
	"fmt"
	"go/types"
	"math/big"
	"os"
	"runtime/debug"
	"strings"

	"golang.org/x/tools/go/ssa"
)

func bigInt(v int64) *big.Int { return big.NewInt(v) }

type FuncResult struct {
	Name        string
	Pkg         string
	Mode        string
	Props       []string
	Obls        []*Obligation
	Notes       []string
	Paths       int
	Returns     int
	Externs     []string
	Callees     []string
	Inlined     []string
	Bounded     []string
	Fault       string // tool fault (contract does not resolve, executor panic)
	Assumes     []string
	OutOfSubset bool
}

// VerifyFunc verifies one function; a contract with "instantiate p F" clauses is verified once per
// clause with the function-typed parameter p bound to F (obligation names carry the binding).
func (p *Program) VerifyFunc(fc *FuncContract) (res *FuncResult) {
	if len(fc.Instantiate) == 0 {
		return p.verifyFuncOnce(fc, [2]string{})
	}
	for _, inst := range fc.Instantiate {
		r := p.verifyFuncOnce(fc, inst)
		if res == nil {
			res = r
			continue
		}
		res.Obls = append(res.Obls, r.Obls...)
		res.Notes = append(res.Notes, r.Notes...)
		res.Paths += r.Paths
		res.Returns += r.Returns
		if res.Fault == "" {
			res.Fault = r.Fault
		}
		res.OutOfSubset = res.OutOfSubset || r.OutOfSubset
	}
	return res
}

func (p *Program) verifyFuncOnce(fc *FuncContract, inst [2]string) (res *FuncResult) {
	res = &FuncResult{Name: fc.Name, Pkg: fc.Pkg, Props: fc.Props, Assumes: fc.Assumes}
	fn := p.LookupFunc(fc.Pkg, fc.Name)
	label := pkgShort(fc.Pkg) + "." + fc.Name
	resolves := &Obligation{Name: label + ":contract:resolves", Kind: "contract", Func: label, Goal: TTrue, Status: "unsat", Solver: "front-end",
		Text: "every clause of the contract resolves and type-checks against the function's current source", Pos: fmt.Sprintf("%s:%d", fc.File, fc.Line)}
	unresolved := func(msg string) {
		resolves.Goal, resolves.Status, resolves.Model = TFalse, "unresolved", msg
		resolves.Text += " — " + msg
	}
	if fn == nil {
		// the function the contract is written for is gone (removed or renamed): its obligations cannot be generated
		unresolved(fmt.Sprintf("function %s.%s not found", fc.Pkg, fc.Name))
		res.Obls = []*Obligation{resolves}
		return
	}
	if fn.Blocks == nil {
		res.Fault = fmt.Sprintf("function %s.%s has no body", fc.Pkg, fc.Name)
		return
	}
	x := NewExec(p, fn, fc)
	x.inst = inst
	if inst[0] != "" {
		label += "[" + inst[0] + "=" + inst[1] + "]"
		resolves.Name = label + ":contract:resolves"
	}
	res.Mode = x.A.Mode.String()
	defer func() {
		if r := recover(); r != nil {
			if ee, ok := r.(evalErr); ok {
				// the contract no longer fits the code (an identifier, field or call site it names is gone):
				// a named obligation that held on the unchanged tree fails
				unresolved(string(ee))
				if os.Getenv("GOVC_DEBUG") != "" {
					fmt.Fprintln(os.Stderr, string(ee)+"\n"+string(debug.Stack()))
				}
				res.Obls = append(x.Obls, resolves)
				res.Notes = x.Notes
				return
			} else {
				res.Fault = fmt.Sprintf("executor panic: %v\n%s", r, debug.Stack())
			}
			res.Obls = x.Obls
			res.Notes = x.Notes
		}
	}()
	st := x.initState()
	x.Run(st)
	x.siteReachedObligations()
	res.Obls = append(x.Obls, resolves)
	res.Notes = x.Notes
	res.Paths = x.paths + 1
	res.Returns = x.retCount
	res.Bounded = x.Bounded
	for k := range x.calledExterns {
		res.Externs = append(res.Externs, k)
	}
	for k := range x.calledContracts {
		res.Callees = append(res.Callees, k)
	}
	for k := range x.inlined {
		res.Inlined = append(res.Inlined, k)
	}
	// vacuity guards
	for i, e := range fc.Ensures {
		if x.postSeen[clauseLabel(e, i)] == 0 {
			res.Fault = fmt.Sprintf("ensures [%s] produced no obligation (no return path reached)", clauseLabel(e, i))
		}
	}
	for _, n := range x.Notes {
		if strings.Contains(n, "outside the subset") || strings.Contains(n, "limit reached") {
			res.OutOfSubset = true
		}
	}
	return
}

func (x *Exec) initState() *State {
	st := &State{X: x, A: x.A, Mems: map[string]*Term{}, Heap: map[string]*Term{}, Cells: map[*Cell]Value{},
		Ghost: map[string]Value{}, Held: map[string]*Term{}, Loops: map[*ssa.BasicBlock]int{}, InLoop: map[*ssa.BasicBlock]*loopEntry{}, monObjs: map[string]monObj{}, lockSnap: map[string]*State{}}
	st.Alloc = Var("alloc0", SInt)
	st.Assume(ILe(IntC(0), st.Alloc))
	f := &Frame{Fn: x.Fn, Regs: map[ssa.Value]Value{}, Block: x.Fn.Blocks[0]}
	st.Frame = f
	for i, p := range x.Fn.Params {
		v := x.freshInput(st, p.Name(), p.Type())
		f.Regs[p] = v
		x.ParamVals[p.Name()] = v
		if i == 0 && x.Fn.Signature.Recv() != nil {
			if _, ok := p.Type().Underlying().(*types.Pointer); ok && (x.FC == nil || !hasEffect(x.FC, "nilrecv")) {
				st.Assume(Neq(v.(Scalar).T, IntC(0)))
			}
		}
	}
	if x.inst[0] != "" {
		bound := false
		for _, p := range x.Fn.Params {
			if p.Name() == x.inst[0] {
				tf := x.P.LookupFunc(x.Pkg, x.inst[1])
				if tf == nil {
					x.fail("instantiate %s: function %s not found", x.inst[0], x.inst[1])
				}
				f.Regs[p] = FuncV{Fn: tf}
				x.ParamVals[p.Name()] = FuncV{Fn: tf}
				bound = true
			}
		}
		if !bound {
			x.fail("instantiate: no parameter %s", x.inst[0])
		}
	}
	for _, fv := range x.Fn.FreeVars {
		// closures verified on their own: captured variables are unknown cells
		et := fv.Type().(*types.Pointer).Elem()
		c := newCell(fv.Name(), et)
		st.Cells[c] = x.freshInput(st, fv.Name(), et)
		f.Regs[fv] = PtrV{Cell: c, HTy: et}
		x.ParamVals[fv.Name()] = st.Cells[c]
	}
	for _, p := range x.Fn.Params {
		if pt, ok := p.Type().Underlying().(*types.Pointer); ok {
			if _, isStruct := pt.Elem().Underlying().(*types.Struct); isStruct {
				x.touchEmbeddedMonitors(st, typeKey(pt.Elem()), pt.Elem(), 0)
			}
		}
	}
	x.initGhosts(st)
	env := &Env{X: x, St: st, Old: st, Vars: x.ParamVals, OldVars: x.ParamVals, FC: x.FC, PkgPath: x.Pkg}
	if x.FC != nil {
		// "requires held(L)": the function is entered with L held by the caller
		for _, r := range x.FC.Requires {
			x.enterHeld(st, env, r.Expr)
		}
		for _, r := range x.FC.Requires {
			st.Assume(x.evalBool(env, r.Expr))
		}
	}
	x.entryAssumptions(st, env)
	st.Old = st.snapshot()
	x.entry = st.Old
	// reachability of the precondition
	x.Obls = append(x.Obls, &Obligation{Name: x.funcLabel() + ":cover:pre", Kind: "cover", Func: x.funcLabel(),
		Assumes: st.AssumeList(), Goal: TFalse, Text: "precondition and type invariants are satisfiable", Cover: true})
	return st
}

func hasEffect(fc *FuncContract, e string) bool {
	for _, s := range fc.Effects {
		if s == e {
			return true
		}
	}
	return false
}

// freshInput creates a named symbolic input (names are stable so models can be read back).
func (x *Exec) freshInput(st *State, name string, t types.Type) Value {
	var ls []leaf
	flatten(t, "", &ls)
	ts := make([]*Term, len(ls))
	for i, l := range ls {
		ts[i] = Var("in$"+name+l.suffix, st.leafSort(l))
		x.Inputs[name+l.suffix] = ts[i]
	}
	v := st.fromTerms(t, ts)
	st.assumeTypeInv(v, t)
	return v
}

func (x *Exec) initGhosts(st *State) {
	if x.FC == nil {
		return
	}
	vars := map[string]Value{}
	for k, v := range x.ParamVals {
		vars[k] = v
	}
	for _, g := range x.FC.Ghosts {
		if n := len(g.LHS); n > 1 && g.LHS[n-1] == '0' {
			if _, clash := x.ParamVals[g.LHS[:n-1]]; clash {
				x.fail("ghost %s clashes with the entry value of parameter %s", g.LHS, g.LHS[:n-1])
			}
		}
		if _, clash := x.ParamVals[g.LHS]; clash {
			x.fail("ghost %s clashes with a parameter", g.LHS)
		}
		for _, b := range x.Fn.Blocks {
			for _, ins := range b.Instrs {
				if a, ok := ins.(*ssa.Alloc); ok && a.Comment == g.LHS {
					x.fail("ghost %s clashes with a local variable of the function", g.LHS)
				}
			}
		}
	}
	env := &Env{X: x, St: st, Old: st, Vars: vars, OldVars: x.ParamVals, FC: x.FC, PkgPath: x.Pkg}
	x.runGhosts(st, env, "entry")
}
func (x *Exec) entryAssumptions(st *State, env *Env) {
	// axioms about globals of dependencies; an axiom that does not resolve in this package is irrelevant here
	for _, ax := range x.P.CS.Axioms {
		func() {
			defer func() {
				if r := recover(); r != nil {
					if _, ok := r.(evalErr); !ok {
						panic(r)
					}
				}
			}()
			aenv := &Env{X: x, St: st, Old: st, Vars: map[string]Value{}, PkgPath: x.Pkg}
			st.Assume(x.evalBool(aenv, ax.Expr))
		}()
	}
}

// VerifyLemma discharges a pure spec-level lemma.
func (p *Program) VerifyLemma(fc *FuncContract) (res *FuncResult) {
	res = &FuncResult{Name: "lemma " + fc.Name, Pkg: fc.Pkg, Props: fc.Props}
	mode := ModeInt
	if fc.ModeSet {
		mode = fc.Mode
	}
	res.Mode = mode.String()
	x := &Exec{P: p, FC: fc, A: &Arith{Mode: mode}, Pkg: fc.Pkg, heapSorts: map[string]string{}, strIDs: map[string]int64{},
		strByID: map[int64]string{}, Inputs: map[string]*Term{}, ParamVals: map[string]Value{}}
	defer func() {
		if r := recover(); r != nil {
			if ee, ok := r.(evalErr); ok {
				res.Fault = string(ee)
			} else {
				res.Fault = fmt.Sprintf("executor panic: %v\n%s", r, debug.Stack())
			}
		}
	}()
	st := &State{X: x, A: x.A, Mems: map[string]*Term{}, Heap: map[string]*Term{}, Cells: map[*Cell]Value{},
		Ghost: map[string]Value{}, Held: map[string]*Term{}, monObjs: map[string]monObj{}, lockSnap: map[string]*State{}}
	st.Alloc = Var("alloc0", SInt)
	st.Assume(ILe(IntC(0), st.Alloc))
	env := &Env{X: x, St: st, Old: st, Vars: map[string]Value{}, FC: fc, PkgPath: fc.Pkg}
	for _, pr := range fc.Params {
		ty := x.lookupType(env, pr.Type)
		if ty == nil {
			res.Fault = "lemma " + fc.Name + ": unknown parameter type " + pr.Type
			return
		}
		env.Vars[pr.Name] = x.freshInput(st, pr.Name, ty)
	}
	env.OldVars = env.Vars
	for _, r := range fc.Requires {
		st.Assume(x.evalBool(env, r.Expr))
	}
	short := fc.Pkg
	if i := strings.LastIndex(short, "/"); i >= 0 {
		short = short[i+1:]
	}
	for k, u := range fc.Uses {
		res.Obls = append(res.Obls, x.applyLemma(st, env, u, fmt.Sprintf("%s.lemma:%s:use%d", short, fc.Name, k+1))...)
	}
	res.Obls = append(res.Obls, &Obligation{Name: short + ".lemma:" + fc.Name + ":cover:pre", Kind: "cover", Func: short + ".lemma:" + fc.Name,
		Assumes: st.AssumeList(), Goal: TFalse, Text: "lemma hypotheses are satisfiable", Cover: true})
	for i, e := range fc.Ensures {
		sub := st.clone()
		env.St, env.Old = sub, sub
		g := x.evalBool(env, e.Expr)
		res.Obls = append(res.Obls, &Obligation{Name: short + ".lemma:" + fc.Name + ":" + clauseLabel(e, i), Kind: "lemma", Func: short + ".lemma:" + fc.Name,
			Assumes: sub.AssumeList(), Goal: g, Text: e.Text, Props: e.Props, Inputs: x.Inputs})
	}
	return
}

func (x *Exec) funcLabelOr(s string) string {
	if x.Fn == nil {
		return s
	}
	return x.funcLabel()
}

// applyLemma instantiates a lemma: its hypotheses become obligations, its conclusions assumptions.
func (x *Exec) applyLemma(st *State, env *Env, u *Expr, owner string) []*Obligation {
	name := u.Args[0].String()
	var lem *FuncContract
	for _, l := range x.P.CS.Lemmas {
		if l.Name == name {
			lem = l
		}
	}
	if lem == nil {
		x.fail("use: unknown lemma %s", name)
	}
	if len(u.Args)-1 != len(lem.Params) {
		x.fail("use %s: %d arguments for %d parameters", name, len(u.Args)-1, len(lem.Params))
	}
	vars := map[string]Value{}
	for i, p := range lem.Params {
		a := u.Args[i+1]
		if env.FC != nil && len(env.FC.Lets) > 0 {
			a = substExpr(a, env.FC.Lets)
		}
		v := x.materialize(env, x.eval(env, a))
		if c, ok := v.(ConstV); ok {
			if ty := x.lookupType(env, p.Type); ty != nil {
				v = Scalar{st.A.Const(c.V, ty), ty}
			}
		}
		if sc, ok := v.(Scalar); ok {
			if ty := x.lookupType(env, p.Type); ty != nil && isIntType(ty) && isIntType(sc.Ty) {
				v = Scalar{st.A.Convert(sc.T, sc.Ty, ty), ty}
			}
		}
		vars[p.Name] = v
	}
	lenv := &Env{X: x, St: st, Old: st, Vars: vars, OldVars: vars, FC: lem, PkgPath: lem.Pkg}
	var obls []*Obligation
	x.usedLemmas = appendUniq(x.usedLemmas, name)
	for i, r := range lem.Requires {
		g := x.evalBool(lenv, r.Expr)
		obls = append(obls, &Obligation{Name: owner + ":" + name + ":" + clauseLabel(r, i), Kind: "use-pre", Func: owner,
			Assumes: st.AssumeList(), Goal: g, Text: "use " + name + " requires " + r.Text, Inputs: x.Inputs})
		st.Assume(g)
	}
	for _, e := range lem.Ensures {
		st.Assume(x.evalBool(lenv, e.Expr))
	}
	return obls
}

func (x *Exec) enterHeld(st *State, env *Env, e *Expr) {
	if e.Kind == "binary" && e.Op == "&&" {
		x.enterHeld(st, env, e.Args[0])
		x.enterHeld(st, env, e.Args[1])
		return
	}
	if e.Kind == "call" && e.Args[0].Kind == "ident" && e.Args[0].Name == "held" && len(e.Args) == 2 {
		v := x.eval(env, e.Args[1])
		p, ok := v.(PtrV)
		if !ok {
			x.fail("held(): lock expression expected: %s", e)
		}
		m, _, ok := x.lockOwner(st, p)
		if !ok {
			x.fail("held(): not a lock: %s", e)
		}
		k := m.key()
		st.Held[k] = TTrue
		st.monObjs[k] = m
		x.heldAtEntry[k] = true
		x.heldEntryObjs = append(x.heldEntryObjs, m)
	}
}

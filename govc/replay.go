package main

// Replay of solver counterexamples on the real code: an in-package test is generated from the model,
// injected with `go test -overlay` (nothing is written into the repository), and its observed
// results are compared with what the model predicts.

import (
	"bytes"
	"context"
	"encoding/json"
	"fmt"
	"go/types"
	"math/big"
	"os"
	"os/exec"
	"path/filepath"
	"regexp"
	"sort"
	"strings"
	"time"

	"golang.org/x/tools/go/ssa"
)

type outLeaf struct {
	Name string
	T    *Term
}

type replayInfo struct {
	Fn       *ssa.Function
	Params   []replayParam
	Results  []replayParam
	FinalMem *Term // byte memory at the obligation point
	EntryMem *Term
	Mode     Mode
}

type replayParam struct {
	Name string
	Ty   types.Type
	V    Value
}

// getValues asks the solver for the values of terms under assumptions /\ not goal /\ extra.
func getValues(assumes []*Term, goal *Term, extra []*Term, terms []*Term, timeout time.Duration) (map[*Term]string, bool) {
	all := append(append([]*Term{}, assumes...), extra...)
	p := &printer{refs: map[*Term]int{}, names: map[*Term]string{}, bound: map[*Term]bool{}}
	seenB := map[*Term]bool{}
	tops := append(append([]*Term{}, all...), goal)
	tops = append(tops, terms...)
	for _, a := range tops {
		p.countRefs(a)
		markBound(a, seenB, p.bound)
	}
	syms := map[string]symInfo{}
	seen := map[*Term]bool{}
	for _, a := range tops {
		collectSyms(a, seen, syms, p.bound)
	}
	var names []string
	for n := range syms {
		names = append(names, n)
	}
	sort.Strings(names)
	var sb strings.Builder
	sb.WriteString("(set-option :produce-models true)\n")
	for _, n := range names {
		si := syms[n]
		if si.args == nil {
			fmt.Fprintf(&sb, "(declare-fun %s () %s)\n", smtName(n), si.sort)
		} else {
			fmt.Fprintf(&sb, "(declare-fun %s (%s) %s)\n", smtName(n), strings.Join(si.args, " "), si.sort)
		}
	}
	hb := map[*Term]bool{}
	var body []string
	for _, a := range all {
		body = append(body, "(assert "+p.str(a, hb)+")")
	}
	body = append(body, "(assert (not "+p.str(goal, hb)+"))")
	var tstr []string
	for _, t := range terms {
		tstr = append(tstr, p.str(t, hb))
	}
	for _, d := range p.defs {
		sb.WriteString(d + "\n")
	}
	for _, b := range body {
		sb.WriteString(b + "\n")
	}
	sb.WriteString("(check-sat)\n")
	for _, t := range tstr {
		sb.WriteString("(get-value (" + t + "))\n")
	}
	dir, err := os.MkdirTemp("", "govc-gv")
	if err != nil {
		return nil, false
	}
	defer os.RemoveAll(dir)
	file := filepath.Join(dir, "gv.smt2")
	os.WriteFile(file, []byte(sb.String()), 0o644)
	ctx, cancel := context.WithTimeout(context.Background(), timeout+2*time.Second)
	defer cancel()
	cmd := exec.CommandContext(ctx, "z3-new", fmt.Sprintf("-T:%d", int(timeout.Seconds())), file)
	var out bytes.Buffer
	cmd.Stdout = &out
	cmd.Run()
	lines := strings.Split(out.String(), "\n")
	if len(lines) == 0 || strings.TrimSpace(lines[0]) != "sat" {
		return nil, false
	}
	// each get-value answer is "((<term> <value>))" possibly spanning lines; re-join and split by "(("
	rest := strings.Join(lines[1:], " ")
	vals := map[*Term]string{}
	pos := 0
	for _, t := range terms {
		i := strings.Index(rest[pos:], "((")
		if i < 0 {
			break
		}
		start := pos + i
		depth := 0
		end := start
		for k := start; k < len(rest); k++ {
			if rest[k] == '(' {
				depth++
			}
			if rest[k] == ')' {
				depth--
				if depth == 0 {
					end = k + 1
					break
				}
			}
		}
		ans := rest[start:end]
		pos = end
		// value is the last s-expression inside
		inner := strings.TrimSpace(ans[2 : len(ans)-2])
		vals[t] = lastSexp(inner)
	}
	return vals, true
}

func lastSexp(s string) string {
	s = strings.TrimSpace(s)
	if strings.HasSuffix(s, ")") {
		depth := 0
		for k := len(s) - 1; k >= 0; k-- {
			if s[k] == ')' {
				depth++
			}
			if s[k] == '(' {
				depth--
				if depth == 0 {
					return s[k:]
				}
			}
		}
	}
	i := strings.LastIndexAny(s, " \t")
	return s[i+1:]
}

var bvLit = regexp.MustCompile(`^#x([0-9a-fA-F]+)$|^#b([01]+)$|^\(_ bv([0-9]+) [0-9]+\)$`)

// parseNum parses an SMT numeral / negative numeral / bit-vector literal / bool.
func parseNum(s string) (*big.Int, bool) {
	s = strings.TrimSpace(s)
	switch s {
	case "true":
		return big.NewInt(1), true
	case "false":
		return big.NewInt(0), true
	}
	if m := bvLit.FindStringSubmatch(s); m != nil {
		v := new(big.Int)
		switch {
		case m[1] != "":
			v.SetString(m[1], 16)
		case m[2] != "":
			v.SetString(m[2], 2)
		default:
			v.SetString(m[3], 10)
		}
		return v, true
	}
	if strings.HasPrefix(s, "(-") {
		inner := strings.TrimSpace(strings.TrimSuffix(strings.TrimPrefix(s, "(-"), ")"))
		v, ok := new(big.Int).SetString(inner, 10)
		if !ok {
			return nil, false
		}
		return v.Neg(v), true
	}
	v, ok := new(big.Int).SetString(s, 10)
	return v, ok
}

func replayable(t types.Type) bool {
	switch u := t.Underlying().(type) {
	case *types.Basic:
		return u.Info()&(types.IsInteger|types.IsBoolean|types.IsString) != 0
	case *types.Slice:
		b := basicOf(u.Elem())
		return b != nil && b.Kind() == types.Uint8
	case *types.Struct:
		for i := 0; i < u.NumFields(); i++ {
			if !replayable(u.Field(i).Type()) {
				return false
			}
		}
		return true
	}
	return false
}

func tryReplay(p *Program, repo, verifDir string, o *Obligation, r *Replay) {
	ri := o.Replay
	if ri == nil || ri.Fn == nil {
		r.ReplayNote = "model found; replay on the real code is not implemented for this kind of obligation (model attached)"
		return
	}
	for _, pr := range ri.Params {
		if !replayable(pr.Ty) {
			r.ReplayNote = fmt.Sprintf("model found; parameter %s of type %s cannot be rebuilt from a model yet (model attached)", pr.Name, pr.Ty)
			return
		}
	}
	A := &Arith{Mode: ri.Mode}
	st := &State{A: A}
	const maxBytes = 48
	// 1. ask for a small model: bound all input lengths and capacities
	var extra []*Term
	var slices []SliceV
	var strs []StringV
	var walk func(v Value, t types.Type)
	walk = func(v Value, t types.Type) {
		switch x := v.(type) {
		case SliceV:
			slices = append(slices, x)
			extra = append(extra, A.IdxLe(x.Cap, A.Idx(maxBytes)))
		case StringV:
			strs = append(strs, x)
			extra = append(extra, A.IdxLe(x.Len, A.Idx(maxBytes)))
		case StructV:
			stt := t.Underlying().(*types.Struct)
			for i, f := range x.Fields {
				walk(f, stt.Field(i).Type())
			}
		}
	}
	for _, pr := range ri.Params {
		walk(pr.V, pr.Ty)
	}
	// input slices must not share backing arrays (the test allocates them separately)
	for i := range slices {
		for j := i + 1; j < len(slices); j++ {
			extra = append(extra, Or(Neq(slices[i].Arr, slices[j].Arr), Eq(slices[i].Arr, IntC(0))))
		}
	}
	var terms []*Term
	addLeaves := func(v Value, t types.Type) {
		terms = append(terms, st.toTerms(v, t)...)
	}
	for _, pr := range ri.Params {
		addLeaves(pr.V, pr.Ty)
	}
	for _, pr := range ri.Results {
		if replayableOut(pr.Ty) {
			addLeaves(pr.V, pr.Ty)
		}
	}
	nScalar := len(terms)
	mem0 := ri.EntryMem
	for _, s := range slices {
		for k := int64(0); k < maxBytes; k++ {
			terms = append(terms, Select(Select(mem0, s.Arr), A.IdxAdd(s.Off, A.Idx(k))))
		}
	}
	vals, ok := getValues(o.Assumes, o.Goal, extra, terms, 20*time.Second)
	if !ok {
		r.ReplayNote = "model found, but no model with small inputs (all slices <= 48 bytes, no aliasing between inputs) exists or was found in time; model attached"
		return
	}
	num := func(t *Term) *big.Int {
		if t.IsConst() {
			return t.Val
		}
		v, ok := parseNum(vals[t])
		if !ok {
			return big.NewInt(0)
		}
		return v
	}
	_ = nScalar
	// 2. build the test
	var sb strings.Builder
	pkgName := ri.Fn.Pkg.Pkg.Name()
	sb.WriteString("package " + pkgName + "\n\nimport (\n\t\"fmt\"\n\t\"testing\"\n\t\"unsafe\"\n)\n\n")
	sb.WriteString("var _ = unsafe.Pointer(nil)\n\n")
	sb.WriteString("func TestVerifReplay(t *testing.T) {\n")
	r.Inputs = map[string]string{}
	sliceIdx := 0
	var lit func(v Value, t types.Type, name string) string
	lit = func(v Value, t types.Type, name string) string {
		switch x := v.(type) {
		case Scalar:
			n := num(x.T)
			if isBoolType(t) {
				return fmt.Sprint(n.Sign() != 0)
			}
			b := basicOf(t)
			if b != nil && b.Info()&types.IsInteger != 0 {
				w, signed := intWidth(b)
				if signed {
					n = toSigned(new(big.Int).Mod(n, pow2(w)), w)
				}
				return fmt.Sprintf("%s(%s)", types.TypeString(t, qual(ri.Fn)), n.String())
			}
		case SliceV:
			arr := num(x.Arr)
			ln, cp := num(x.Len).Int64(), num(x.Cap).Int64()
			idx := sliceIdx
			sliceIdx++
			if arr.Sign() == 0 {
				return "[]byte(nil)"
			}
			var bs []string
			for k := int64(0); k < cp && k < maxBytes; k++ {
				bt := terms[nScalar+idx*maxBytes+int(k)]
				bs = append(bs, fmt.Sprint(num(bt).Int64()&255))
			}
			return fmt.Sprintf("append(make([]byte, 0, %d), []byte{%s}...)[:%d]", cp, strings.Join(bs, ", "), ln)
		case StringV:
			return "\"\"" // strings in models: contents not reconstructed yet
		case StructV:
			stt := t.Underlying().(*types.Struct)
			var fs []string
			for i, f := range x.Fields {
				fs = append(fs, stt.Field(i).Name()+": "+lit(f, stt.Field(i).Type(), name+"."+stt.Field(i).Name()))
			}
			return types.TypeString(t, qual(ri.Fn)) + "{" + strings.Join(fs, ", ") + "}"
		}
		return "nil"
	}
	var argNames []string
	for i, pr := range ri.Params {
		an := fmt.Sprintf("a%d", i)
		l := lit(pr.V, pr.Ty, pr.Name)
		r.Inputs[pr.Name] = l
		fmt.Fprintf(&sb, "\t%s := %s\n", an, l)
		argNames = append(argNames, an)
	}
	call := ri.Fn.Name() + "(" + strings.Join(argNames, ", ") + ")"
	if ri.Fn.Signature.Recv() != nil {
		call = argNames[0] + "." + ri.Fn.Name() + "(" + strings.Join(argNames[1:], ", ") + ")"
	}
	sb.WriteString("\tdefer func() {\n\t\tif e := recover(); e != nil {\n\t\t\tfmt.Printf(\"VERIF-PANIC %v\\n\", e)\n\t\t}\n\t}()\n")
	var rn []string
	for i := range ri.Results {
		rn = append(rn, fmt.Sprintf("r%d", i))
	}
	if len(rn) > 0 {
		fmt.Fprintf(&sb, "\t%s := %s\n", strings.Join(rn, ", "), call)
	} else {
		fmt.Fprintf(&sb, "\t%s\n", call)
	}
	// print observed outputs in a canonical form
	var expect []string
	var emit func(expr string, v Value, t types.Type, name string)
	emit = func(expr string, v Value, t types.Type, name string) {
		switch x := v.(type) {
		case Scalar:
			b := basicOf(t)
			switch {
			case isBoolType(t):
				fmt.Fprintf(&sb, "\tfmt.Printf(\"VERIF-OUT %s=%%v\\n\", %s)\n", name, expr)
				expect = append(expect, fmt.Sprintf("%s=%v", name, num(x.T).Sign() != 0))
			case b != nil && b.Info()&types.IsInteger != 0:
				w, signed := intWidth(b)
				n := new(big.Int).Mod(num(x.T), pow2(w))
				if signed {
					n = toSigned(n, w)
				}
				fmt.Fprintf(&sb, "\tfmt.Printf(\"VERIF-OUT %s=%%d\\n\", %s)\n", name, expr)
				expect = append(expect, fmt.Sprintf("%s=%s", name, n.String()))
			default:
				// interface / pointer: nil-ness only
				fmt.Fprintf(&sb, "\tfmt.Printf(\"VERIF-OUT %s.nil=%%v\\n\", %s == nil)\n", name, expr)
				expect = append(expect, fmt.Sprintf("%s.nil=%v", name, num(x.T).Sign() == 0))
			}
		case SliceV:
			fmt.Fprintf(&sb, "\tfmt.Printf(\"VERIF-OUT %s.len=%%d\\n\", len(%s))\n", name, expr)
			expect = append(expect, fmt.Sprintf("%s.len=%d", name, num(x.Len).Int64()))
		case StructV:
			stt := t.Underlying().(*types.Struct)
			for i, f := range x.Fields {
				emit(expr+"."+stt.Field(i).Name(), f, stt.Field(i).Type(), name+"."+stt.Field(i).Name())
			}
		}
	}
	for i, pr := range ri.Results {
		emit(rn[i], pr.V, pr.Ty, pr.Name)
	}
	sb.WriteString("}\n")
	r.Test = sb.String()
	// 3. run it
	out, err := runOverlayTest(repo, ri.Fn, sb.String())
	r.TestOutput = out
	if err != nil && !strings.Contains(out, "VERIF-") {
		r.ReplayNote = "replay test could not be run: " + err.Error()
		return
	}
	panicked := strings.Contains(out, "VERIF-PANIC")
	switch o.Kind {
	case "bounds", "nil", "div0", "no-panic", "assert-type", "alloc", "close", "pre":
		if panicked {
			r.Reproduced = true
			r.ReplayNote = "the real code panics on the model input"
		} else {
			r.ReplayNote = "the real code did not panic on the model input (the executor's path may differ from the real one)"
		}
		return
	}
	if panicked {
		r.ReplayNote = "the real code panicked on the model input"
		r.Reproduced = true
		return
	}
	got := map[string]bool{}
	for _, l := range strings.Split(out, "\n") {
		if strings.HasPrefix(l, "VERIF-OUT ") {
			got[strings.TrimPrefix(l, "VERIF-OUT ")] = true
		}
	}
	miss := 0
	for _, e := range expect {
		if !got[e] {
			miss++
		}
	}
	if miss == 0 && len(expect) > 0 {
		r.Reproduced = true
		r.ReplayNote = "the real code returns exactly the results the counter-model predicts, for which the clause is false"
	} else {
		r.ReplayNote = fmt.Sprintf("the real code's results differ from the model's prediction in %d of %d observed values: the executor and the real code disagree on this input (tool problem, not a finding)", miss, len(expect))
	}
	b, _ := json.Marshal(expect)
	r.Inputs["__predicted_outputs"] = string(b)
}

func replayableOut(t types.Type) bool {
	switch u := t.Underlying().(type) {
	case *types.Struct:
		for i := 0; i < u.NumFields(); i++ {
			if !replayableOut(u.Field(i).Type()) {
				return false
			}
		}
		return true
	case *types.Basic, *types.Slice, *types.Interface, *types.Pointer:
		return true
	}
	return false
}

func qual(fn *ssa.Function) types.Qualifier {
	return func(p *types.Package) string {
		if fn.Pkg != nil && p == fn.Pkg.Pkg {
			return ""
		}
		return p.Name()
	}
}

// runOverlayTest runs an in-package test without writing into the repository.
func runOverlayTest(repo string, fn *ssa.Function, src string) (string, error) {
	dir, err := os.MkdirTemp("", "govc-replay")
	if err != nil {
		return "", err
	}
	defer os.RemoveAll(dir)
	testFile := filepath.Join(dir, "x_test.go")
	os.WriteFile(testFile, []byte(src), 0o644)
	pkgPath := fn.Pkg.Pkg.Path()
	rel := "."
	// module path prefix -> directory
	mod := ""
	if b, err := os.ReadFile(filepath.Join(repo, "go.mod")); err == nil {
		for _, l := range strings.Split(string(b), "\n") {
			if strings.HasPrefix(l, "module ") {
				mod = strings.TrimSpace(strings.TrimPrefix(l, "module "))
			}
		}
	}
	if mod != "" && strings.HasPrefix(pkgPath, mod) {
		rel = "." + strings.TrimPrefix(pkgPath, mod)
	}
	target := filepath.Join(repo, rel, "zz_verif_replay_test.go")
	ov := map[string]interface{}{"Replace": map[string]string{target: testFile}}
	ob, _ := json.Marshal(ov)
	ovFile := filepath.Join(dir, "ov.json")
	os.WriteFile(ovFile, ob, 0o644)
	ctx, cancel := context.WithTimeout(context.Background(), 120*time.Second)
	defer cancel()
	cmd := exec.CommandContext(ctx, "go", "test", "-overlay", ovFile, "-vet=off", "-count=1", "-timeout", "60s", "-run", "^TestVerifReplay$", "-v", rel)
	cmd.Dir = repo
	cmd.Env = append(os.Environ(), "GOFLAGS=-mod=mod", "GOPROXY=off", "GOSUMDB=off", "GOTOOLCHAIN=local")
	var out bytes.Buffer
	cmd.Stdout = &out
	cmd.Stderr = &out
	err = cmd.Run()
	s := out.String()
	if len(s) > 20000 {
		s = s[:20000]
	}
	return s, err
}

package main

// Instruction semantics.

import (
	"fmt"
	"go/token"
	"go/types"
	"math/big"
	"os"

	"golang.org/x/tools/go/ssa"
)

func (x *Exec) setReg(st *State, v ssa.Value, val Value) { st.Frame.Regs[v] = val }

func (x *Exec) step(st *State, ins ssa.Instruction) {
	f := st.Frame
	adv := true
	switch i := ins.(type) {
	case *ssa.DebugRef:
	case *ssa.Alloc:
		x.doAlloc(st, i)
	case *ssa.Store:
		x.store(st, x.val(st, i.Addr), i.Val.Type(), x.val(st, i.Val), i)
	case *ssa.UnOp:
		x.doUnOp(st, i)
	case *ssa.BinOp:
		x.doBinOp(st, i)
	case *ssa.FieldAddr:
		x.doFieldAddr(st, i)
	case *ssa.Field:
		sv := x.val(st, i.X).(StructV)
		x.setReg(st, i, sv.Fields[i.Field])
	case *ssa.IndexAddr:
		x.doIndexAddr(st, i)
	case *ssa.Index:
		x.doIndex(st, i)
	case *ssa.Slice:
		x.doSlice(st, i)
	case *ssa.Convert:
		x.doConvert(st, i)
	case *ssa.ChangeType:
		x.setReg(st, i, x.retype(x.val(st, i.X), i.Type()))
	case *ssa.ChangeInterface:
		x.setReg(st, i, x.retype(x.val(st, i.X), i.Type()))
	case *ssa.MakeInterface:
		x.doMakeInterface(st, i)
	case *ssa.TypeAssert:
		x.doTypeAssert(st, i)
	case *ssa.Extract:
		t := x.val(st, i.Tuple).(TupleV)
		x.setReg(st, i, t[i.Index])
	case *ssa.Phi:
		for k, p := range f.Block.Preds {
			if p == f.Prev {
				x.setReg(st, i, x.coerce(st, x.val(st, i.Edges[k]), i.Type()))
			}
		}
	case *ssa.MakeSlice:
		x.doMakeSlice(st, i)
	case *ssa.MakeClosure:
		fv := FuncV{Fn: i.Fn.(*ssa.Function)}
		for _, b := range i.Bindings {
			fv.Bind = append(fv.Bind, x.val(st, b))
		}
		x.setReg(st, i, fv)
	case *ssa.MakeMap:
		x.doMakeMap(st, i)
	case *ssa.MakeChan:
		id := st.freshID()
		st.heapStore(id, "chan", tyBool, Scalar{TFalse, tyBool}) // closed flag
		st.heapStore(id, "chancap", tyInt, x.coerce(st, x.val(st, i.Size), tyInt))
		x.setReg(st, i, Scalar{id, i.Type()})
	case *ssa.MapUpdate:
		x.doMapUpdate(st, i)
	case *ssa.Lookup:
		x.doLookup(st, i)
	case *ssa.Jump:
		adv = false
		x.jump(st, f.Block.Succs[0])
	case *ssa.If:
		adv = false
		c := x.scalar(st, i.Cond)
		switch {
		case c.IsTrue():
			x.jump(st, f.Block.Succs[0])
		case c.IsFalse():
			x.jump(st, f.Block.Succs[1])
		default:
			other := x.fork(st)
			other.Assume(Not(c))
			other.Trace = append(other.Trace, fmt.Sprintf("b%d:F", f.Block.Index))
			if !other.Dead {
				x.jump(other, other.Frame.Block.Succs[1])
				x.work = append(x.work, other)
			}
			st.Assume(c)
			st.Trace = append(st.Trace, fmt.Sprintf("b%d:T", f.Block.Index))
			if !st.Dead {
				x.jump(st, f.Block.Succs[0])
			}
		}
	case *ssa.Return:
		adv = false
		x.doReturn(st, i)
	case *ssa.RunDefers:
		adv = x.doRunDefers(st, i)
	case *ssa.Defer:
		d := deferred{call: i}
		d.fn, d.args = x.evalCallee(st, i.Common())
		f.Defers = append(f.Defers, d)
	case *ssa.Go:
		x.doGo(st, i)
	case *ssa.Call:
		adv = x.doCall(st, i, i.Common(), i)
	case *ssa.Panic:
		adv = false
		x.doPanic(st, i)
	case *ssa.Select:
		adv = x.doSelect(st, i)
	case *ssa.Send:
		x.doSend(st, i)
	case *ssa.Range:
		if mt, ok := i.X.Type().Underlying().(*types.Map); ok {
			x.doRangeMap(st, i, mt)
		} else {
			x.note("range over %s in %s: outside the subset", i.X.Type(), FuncName(f.Fn))
			st.Dead = true
			st.OutOfSubset = "range"
		}
	case *ssa.Next:
		if _, ok := st.Frame.Regs[i.Iter].(IterV); ok {
			adv = x.doNextMap(st, i)
		} else {
			st.Dead = true
		}
	case *ssa.SliceToArrayPointer, *ssa.MultiConvert:
		x.note("unsupported instruction %T in %s", ins, FuncName(f.Fn))
		st.Dead = true
	default:
		panic(fmt.Sprintf("unhandled instruction %T: %s", ins, ins))
	}
	if adv && st.Frame == f && !st.Dead {
		f.PC++
	}
}

func (x *Exec) retype(v Value, t types.Type) Value {
	switch s := v.(type) {
	case Scalar:
		return Scalar{s.T, t}
	case StructV:
		return StructV{Ty: t, Fields: s.Fields}
	}
	return v
}

func (x *Exec) doAlloc(st *State, i *ssa.Alloc) {
	et := i.Type().(*types.Pointer).Elem()
	if i.Heap && isNamedStruct(et) {
		id := st.freshID()
		st.heapStore(id, typeKey(et), et, st.zeroValue(et))
		x.setReg(st, i, Scalar{id, i.Type()})
		return
	}
	name := i.Comment
	if name == "" {
		name = i.Name()
	}
	c := newCell(name, et)
	st.Cells[c] = st.zeroValue(et)
	x.setReg(st, i, PtrV{Cell: c, HTy: et})
}

func (x *Exec) doUnOp(st *State, i *ssa.UnOp) {
	switch i.Op {
	case token.MUL:
		x.setReg(st, i, x.load(st, x.val(st, i.X), i.Type(), i))
	case token.NOT:
		x.setReg(st, i, Scalar{Not(x.scalar(st, i.X)), i.Type()})
	case token.SUB:
		x.setReg(st, i, Scalar{st.A.Neg(x.scalar(st, i.X), i.Type()), i.Type()})
	case token.XOR:
		x.setReg(st, i, Scalar{st.A.BitNot(x.scalar(st, i.X), i.Type()), i.Type()})
	case token.ARROW:
		x.doRecv(st, i)
	default:
		panic("unop " + i.Op.String())
	}
}

func (x *Exec) doBinOp(st *State, i *ssa.BinOp) {
	xv, yv := x.val(st, i.X), x.val(st, i.Y)
	t := i.X.Type()
	switch i.Op {
	case token.EQL, token.NEQ:
		eq := x.valuesEqual(st, xv, yv, t)
		if i.Op == token.NEQ {
			eq = Not(eq)
		}
		x.setReg(st, i, Scalar{eq, i.Type()})
		return
	}
	if isStringType(t) {
		switch i.Op {
		case token.ADD:
			x.setReg(st, i, x.strConcat(st, xv.(StringV), yv.(StringV)))
			return
		default:
			x.setReg(st, i, Scalar{Fresh("strcmp", SBool), i.Type()})
			return
		}
	}
	xt := st.scalarTerm(xv, t)
	yt := st.scalarTerm(yv, i.Y.Type())
	if (i.Op == token.SHL || i.Op == token.SHR) && st.A.Mode == ModeInt {
		// negative shift counts panic; counts are unsigned or constant here
	}
	r, div0 := st.A.BinOp(i.Op, xt, yt, t, i.Y.Type())
	if div0 != nil {
		g := Not(div0)
		x.oblige(st, "div0", x.anchor(i, "div"), g, "divisor non-zero", i, nil)
		st.Assume(g)
	}
	x.setReg(st, i, Scalar{r, i.Type()})
}

// valuesEqual implements Go's == on values of static type t.
func (x *Exec) valuesEqual(st *State, a, b Value, t types.Type) *Term {
	switch u := t.Underlying().(type) {
	case *types.Basic:
		if u.Info()&types.IsString != 0 {
			return x.strEq(st, a.(StringV), b.(StringV))
		}
		return Eq(st.scalarTerm(a, t), st.scalarTerm(b, t))
	case *types.Struct:
		as, bs := a.(StructV), b.(StructV)
		var cs []*Term
		for k := 0; k < u.NumFields(); k++ {
			cs = append(cs, x.valuesEqual(st, as.Fields[k], bs.Fields[k], u.Field(k).Type()))
		}
		return And(cs...)
	case *types.Slice:
		// only comparison with nil is legal
		if sv, ok := a.(SliceV); ok {
			if isNilValue(b) {
				return Eq(sv.Arr, IntC(0))
			}
		}
		if sv, ok := b.(SliceV); ok {
			if isNilValue(a) {
				return Eq(sv.Arr, IntC(0))
			}
		}
		as, bs := a.(SliceV), b.(SliceV)
		if as.Arr.IsConst() && as.Arr.Val.Sign() == 0 {
			return Eq(bs.Arr, IntC(0))
		}
		return Eq(as.Arr, IntC(0))
	case *types.Interface:
		// comparing interface values: identical references (dynamic value equality is abstracted)
		return Eq(st.scalarTerm(a, t), st.scalarTerm(b, t))
	}
	return Eq(st.scalarTerm(a, t), st.scalarTerm(b, t))
}

func isNilValue(v Value) bool {
	switch s := v.(type) {
	case nil:
		return true
	case SliceV:
		return s.Arr.IsConst() && s.Arr.Val.Sign() == 0
	case Scalar:
		return s.T.IsConst() && s.T.Sort == SInt && s.T.Val.Sign() == 0
	}
	return false
}

func (x *Exec) strBytes(st *State) *Term { return st.mem("str", st.A.ByteSort()) }

func (x *Exec) strEq(st *State, a, b StringV) *Term {
	if a.Arr == b.Arr && a.Off == b.Off && a.Len == b.Len {
		return TTrue
	}
	lit := func(s StringV) (string, bool) {
		if s.Arr.IsConst() && s.Arr.Val.Sign() < 0 {
			str, ok := x.strByID[s.Arr.Val.Int64()]
			return str, ok && len(str) <= 64
		}
		return "", false
	}
	la, oka := lit(a)
	lb, okb := lit(b)
	if oka && okb {
		return Bool(la == lb)
	}
	if okb {
		a, b, la, oka = b, a, lb, true
	}
	m := x.strBytes(st)
	if oka {
		// b against literal la
		cs := []*Term{Eq(b.Len, st.A.Idx(int64(len(la))))}
		inner := Select(m, b.Arr)
		for k := 0; k < len(la); k++ {
			cs = append(cs, Eq(Select(inner, st.A.IdxAdd(b.Off, st.A.Idx(int64(k)))), st.A.Const(big.NewInt(int64(la[k])), tyByte)))
		}
		return And(cs...)
	}
	j := Fresh("j", st.A.IdxSort())
	ia, ib := Select(m, a.Arr), Select(m, b.Arr)
	body := Implies(And(st.A.IdxLe(st.A.Idx(0), j), st.A.IdxLt(j, a.Len)),
		Eq(Select(ia, st.A.IdxAdd(a.Off, j)), Select(ib, st.A.IdxAdd(b.Off, j))))
	return And(Eq(a.Len, b.Len), Forall([]*Term{j}, body))
}

func (x *Exec) strConcat(st *State, a, b StringV) Value {
	A := st.A
	id := st.freshID()
	m := x.strBytes(st)
	na := Fresh("cat", SArr(A.IdxSort(), A.ByteSort()))
	j := Fresh("j", A.IdxSort())
	ia, ib := Select(m, a.Arr), Select(m, b.Arr)
	body := And(
		Implies(And(A.IdxLe(A.Idx(0), j), A.IdxLt(j, a.Len)), Eq(Select(na, j), Select(ia, A.IdxAdd(a.Off, j)))),
		Implies(And(A.IdxLe(a.Len, j), A.IdxLt(j, A.IdxAdd(a.Len, b.Len))), Eq(Select(na, j), Select(ib, A.IdxAdd(b.Off, A.IdxSub(j, a.Len))))))
	st.Assume(Forall([]*Term{j}, body, []*Term{Select(na, j)}))
	st.setMem("str", Store(m, id, na))
	return StringV{id, A.Idx(0), A.IdxAdd(a.Len, b.Len)}
}

func (x *Exec) doFieldAddr(st *State, i *ssa.FieldAddr) {
	base := x.val(st, i.X)
	pt := i.X.Type().Underlying().(*types.Pointer)
	stt := pt.Elem().Underlying().(*types.Struct)
	fld := stt.Field(i.Field)
	switch b := base.(type) {
	case PtrV:
		switch {
		case b.Cell != nil:
			np := append(append([]int(nil), b.Path...), i.Field)
			x.setReg(st, i, PtrV{Cell: b.Cell, Path: np, HTy: fld.Type()})
		case b.Ref != nil:
			x.setReg(st, i, PtrV{Ref: b.Ref, Root: b.Root + "." + fld.Name(), HTy: fld.Type()})
		default:
			panic("FieldAddr on element pointer")
		}
	case Scalar:
		x.nilCheck(st, b.T, i)
		x.setReg(st, i, PtrV{Ref: b.T, Root: typeKey(pt.Elem()) + "." + fld.Name(), HTy: fld.Type()})
	default:
		panic(fmt.Sprintf("FieldAddr on %T", base))
	}
}

func (x *Exec) boundsCheck(st *State, idx, n *Term, ins ssa.Instruction, what string) {
	A := st.A
	g := And(A.IdxLe(A.Idx(0), idx), A.IdxLt(idx, n))
	x.oblige(st, "bounds", x.anchor(ins, what), g, "index in range", ins, nil)
	st.Assume(g)
}

func (x *Exec) doIndexAddr(st *State, i *ssa.IndexAddr) {
	idx := x.toIdx(st, i.Index)
	switch t := i.X.Type().Underlying().(type) {
	case *types.Slice:
		sv := x.val(st, i.X).(SliceV)
		x.boundsCheck(st, idx, sv.Len, i, "index")
		x.setReg(st, i, PtrV{Arr: sv.Arr, Idx: st.A.IdxAdd(sv.Off, idx), Elem: t.Elem()})
	case *types.Pointer:
		at := t.Elem().Underlying().(*types.Array)
		arrv := x.load(st, x.val(st, i.X), t.Elem(), i).(SliceV)
		x.boundsCheck(st, idx, st.A.Idx(at.Len()), i, "index")
		x.setReg(st, i, PtrV{Arr: arrv.Arr, Idx: st.A.IdxAdd(arrv.Off, idx), Elem: at.Elem()})
	default:
		panic("IndexAddr on " + t.String())
	}
}

func (x *Exec) doIndex(st *State, i *ssa.Index) {
	idx := x.toIdx(st, i.Index)
	switch v := x.val(st, i.X).(type) {
	case StringV:
		x.boundsCheck(st, idx, v.Len, i, "index")
		b := Select(Select(x.strBytes(st), v.Arr), st.A.IdxAdd(v.Off, idx))
		if st.A.Mode == ModeInt {
			st.Assume(And(ILe(IntC(0), b), ILe(b, IntC(255))))
		}
		x.setReg(st, i, Scalar{b, i.Type()})
	case SliceV: // array value
		x.boundsCheck(st, idx, v.Len, i, "index")
		x.setReg(st, i, st.memLoad(v.Arr, st.A.IdxAdd(v.Off, idx), v.Elem))
	default:
		panic(fmt.Sprintf("Index on %T", v))
	}
}

func (x *Exec) doSlice(st *State, i *ssa.Slice) {
	A := st.A
	var lo, hi, max *Term
	if i.Low != nil {
		lo = x.toIdx(st, i.Low)
	} else {
		lo = A.Idx(0)
	}
	base := x.val(st, i.X)
	switch b := base.(type) {
	case StringV:
		if i.High != nil {
			hi = x.toIdx(st, i.High)
		} else {
			hi = b.Len
		}
		g := And(A.IdxLe(A.Idx(0), lo), A.IdxLe(lo, hi), A.IdxLe(hi, b.Len))
		x.oblige(st, "bounds", x.anchor(i, "slice"), g, "slice bounds in range", i, nil)
		st.Assume(g)
		x.setReg(st, i, StringV{b.Arr, A.IdxAdd(b.Off, lo), A.IdxSub(hi, lo)})
		return
	case SliceV:
		x.sliceOf(st, i, b, lo, hi, max)
		return
	default:
		// pointer to array
		if pt, ok := i.X.Type().Underlying().(*types.Pointer); ok {
			arrv := x.load(st, base, pt.Elem(), i).(SliceV)
			x.sliceOf(st, i, arrv, lo, hi, max)
			return
		}
	}
	panic(fmt.Sprintf("Slice of %T", base))
}

func (x *Exec) sliceOf(st *State, i *ssa.Slice, b SliceV, lo, hi, max *Term) {
	A := st.A
	if i.High != nil {
		hi = x.toIdx(st, i.High)
	} else {
		hi = b.Len
	}
	if i.Max != nil {
		max = x.toIdx(st, i.Max)
	} else {
		max = b.Cap
	}
	g := And(A.IdxLe(A.Idx(0), lo), A.IdxLe(lo, hi), A.IdxLe(hi, max), A.IdxLe(max, b.Cap))
	x.oblige(st, "bounds", x.anchor(i, "slice"), g, "slice bounds in range", i, nil)
	st.Assume(g)
	x.setReg(st, i, SliceV{Arr: b.Arr, Off: A.IdxAdd(b.Off, lo), Len: A.IdxSub(hi, lo), Cap: A.IdxSub(max, lo), Elem: b.Elem})
}

func (x *Exec) doMakeSlice(st *State, i *ssa.MakeSlice) {
	A := st.A
	n := x.toIdx(st, i.Len)
	c := x.toIdx(st, i.Cap)
	g := And(A.IdxLe(A.Idx(0), n), A.IdxLe(n, c), A.IdxLe(c, A.Const(pow2(maxObjBits), tyInt)))
	x.oblige(st, "alloc", x.anchor(i, "make"), g, "make: 0 <= len <= cap <= 2^48", i, nil)
	st.Assume(g)
	x.allocLimit(st, i, c)
	id := st.freshID()
	elem := i.Type().Underlying().(*types.Slice).Elem()
	st.assumeZeroed(id, elem, -1)
	x.setReg(st, i, SliceV{Arr: id, Off: A.Idx(0), Len: n, Cap: c, Elem: elem})
}

func (x *Exec) doConvert(st *State, i *ssa.Convert) {
	from, to := i.X.Type(), i.Type()
	v := x.val(st, i.X)
	A := st.A
	switch {
	case isIntType(from) && isIntType(to):
		x.setReg(st, i, Scalar{A.Convert(st.scalarTerm(v, from), from, to), to})
	case isStringType(to) && isByteSlice(from):
		sv := v.(SliceV)
		id := st.freshID()
		x.copyBytes(st, "str", id, A.Idx(0), "byte", sv.Arr, sv.Off, sv.Len)
		x.setReg(st, i, StringV{id, A.Idx(0), sv.Len})
	case isByteSlice(to) && isStringType(from):
		sv := v.(StringV)
		id := st.freshID()
		x.copyBytes(st, "byte", id, A.Idx(0), "str", sv.Arr, sv.Off, sv.Len)
		x.setReg(st, i, SliceV{Arr: id, Off: A.Idx(0), Len: sv.Len, Cap: sv.Len, Elem: tyByte})
	case isStringType(to) && isIntType(from):
		x.setReg(st, i, st.freshValue("runestr", to))
	default:
		// pointer <-> unsafe.Pointer, float conversions, etc.: opaque
		if sc, ok := v.(Scalar); ok && A.SortOf(from) == A.SortOf(to) {
			x.setReg(st, i, Scalar{sc.T, to})
			return
		}
		x.setReg(st, i, st.freshValue("conv", to))
	}
}

func isByteSlice(t types.Type) bool {
	s, ok := t.Underlying().(*types.Slice)
	if !ok {
		return false
	}
	b := basicOf(s.Elem())
	return b != nil && b.Kind() == types.Uint8
}

// copyBytes: dstMem[dArr][dOff+j] = srcMem[sArr][sOff+j] for j < n, rest of dArr unchanged.
func (x *Exec) copyBytes(st *State, dKey string, dArr, dOff *Term, sKey string, sArr, sOff, n *Term) {
	A := st.A
	dm := st.mem(dKey, A.ByteSort())
	sm := st.mem(sKey, A.ByteSort())
	old := Select(dm, dArr)
	src := Select(sm, sArr)
	na := Fresh("cp", SArr(A.IdxSort(), A.ByteSort()))
	j := Fresh("j", A.IdxSort())
	in := And(A.IdxLe(dOff, j), A.IdxLt(j, A.IdxAdd(dOff, n)))
	body := Eq(Select(na, j), Ite(in, Select(src, A.IdxAdd(sOff, A.IdxSub(j, dOff))), Select(old, j)))
	st.Assume(Forall([]*Term{j}, body, []*Term{Select(na, j)}))
	st.setMem(dKey, Store(dm, dArr, na))
}

func (x *Exec) doMakeInterface(st *State, i *ssa.MakeInterface) {
	v := x.val(st, i.X)
	st.markEscaped(v)
	xt := i.X.Type()
	// references keep their identity; other values are boxed into a fresh object whose dynamic
	// type tag and payload are recorded.
	var ref *Term
	if sc, ok := v.(Scalar); ok && st.isRefType(xt) {
		if _, isIface := xt.Underlying().(*types.Interface); isIface {
			x.setReg(st, i, Scalar{sc.T, i.Type()})
			return
		}
		// typed nil pointer in an interface is non-nil; box pointers by tagging
		ref = App("box$"+typeKey(xt), SInt, sc.T)
		st.Assume(ILt(IntC(0), ref))
		st.Assume(ILe(ref, st.allocBound()))
		st.Assume(Eq(App("unbox$"+typeKey(xt), SInt, ref), sc.T))
	} else {
		ref = st.freshID()
		st.heapStore(ref, "box:"+typeKey(xt), xt, v)
	}
	st.Assume(Eq(App("dyntype", SInt, ref), IntC(x.typeTag(xt))))
	x.boxedTypes[typeKey(xt)] = xt
	for text := range x.ifaceTexts {
		x.assumeImplements(st, text, xt)
	}
	x.devirtualize(st, ref, v, xt)
	x.setReg(st, i, Scalar{ref, i.Type()})
}

var typeTags = map[string]int64{}

func (x *Exec) typeTag(t types.Type) int64 {
	k := typeKey(t)
	if id, ok := typeTags[k]; ok {
		return id
	}
	id := int64(len(typeTags) + 1)
	typeTags[k] = id
	return id
}

func (x *Exec) doTypeAssert(st *State, i *ssa.TypeAssert) {
	v := x.val(st, i.X).(Scalar)
	at := i.AssertedType
	var ok *Term
	var res Value
	if _, isIface := at.Underlying().(*types.Interface); isIface {
		// interface-to-interface: "has method set" is an uninterpreted predicate of the dynamic type
		ok = And(Neq(v.T, IntC(0)), App("implements$"+typeKey(at), SBool, App("dyntype", SInt, v.T)))
		res = Scalar{v.T, at}
		x.registerIface(st, typeKey(at))
	} else {
		ok = And(Neq(v.T, IntC(0)), Eq(App("dyntype", SInt, v.T), IntC(x.typeTag(at))))
		if st.isRefType(at) {
			res = Scalar{App("unbox$"+typeKey(at), SInt, v.T), at}
		} else {
			res = st.heapLoad(v.T, "box:"+typeKey(at), at)
		}
	}
	if i.CommaOk {
		// on failure the value is the zero value
		zero := st.zeroValue(at)
		x.setReg(st, i, TupleV{x.iteValue(st, ok, res, zero, at), Scalar{ok, tyBool}})
		return
	}
	x.oblige(st, "assert-type", x.anchor(i, "type assertion"), ok, "type assertion holds", i, nil)
	st.Assume(ok)
	x.setReg(st, i, res)
}

func (x *Exec) iteValue(st *State, c *Term, a, b Value, t types.Type) Value {
	if c.IsTrue() {
		return a
	}
	if c.IsFalse() {
		return b
	}
	ta, tb := st.toTerms(a, t), st.toTerms(b, t)
	out := make([]*Term, len(ta))
	for k := range ta {
		out[k] = Ite(c, ta[k], tb[k])
	}
	return st.fromTerms(t, out)
}

// ---------------------------------------------------------------------------------------------
// maps: heap keys "map:<K>:<V>#present" and "map:<K>:<V>" + value leaves, indexed by map ref, then key

func (x *Exec) mapKeys(st *State, mt *types.Map) (pkey string, ksort string) {
	return "map:" + typeKey(mt.Key()) + ":" + typeKey(mt.Elem()), st.A.SortOf(mt.Key())
}

func (x *Exec) mapKeyTerm(st *State, v Value, kt types.Type) *Term {
	if isStringType(kt) {
		sv := v.(StringV)
		// string literals: one distinct key per distinct literal text (distinct texts are distinct keys)
		if id, ok := iconst(sv.Arr); ok && id.Sign() < 0 {
			if off, ok := iconst(st.idxToInt(sv.Off)); ok && off.Sign() == 0 {
				if lit, isLit := x.strByID[id.Int64()]; isLit && func() bool {
					n, ok := iconst(st.idxToInt(sv.Len))
					return ok && n.Int64() == int64(len(lit))
				}() {
					return IntBig(new(big.Int).Sub(id, big.NewInt(1<<50)))
				}
			}
		}
		// other strings as keys: abstract by an uninterpreted content hash
		return App("strkey", SInt, sv.Arr, st.idxToInt(sv.Off), st.idxToInt(sv.Len))
	}
	return st.scalarTerm(v, kt)
}

func (x *Exec) mapArr(st *State, key, sort string) *Term {
	h, ok := st.Heap[key]
	if !ok {
		h = st.lazyVersion(false, key, sort)
		st.Heap[key] = h
		x.heapSorts[key] = sort
	}
	return h
}

func (x *Exec) doMakeMap(st *State, i *ssa.MakeMap) {
	mt := i.Type().Underlying().(*types.Map)
	id := st.freshID()
	pk, ks := x.mapKeys(st, mt)
	if isStringType(mt.Key()) {
		ks = SInt
	}
	pres := x.mapArr(st, pk+"#present", SArr(SInt, SArr(ks, SBool)))
	empty := Fresh("emptymap", SArr(ks, SBool))
	k := Fresh("k", ks)
	st.Assume(Forall([]*Term{k}, Not(Select(empty, k)), []*Term{Select(empty, k)}))
	st.Heap[pk+"#present"] = Store(pres, id, empty)
	st.heapStore(id, pk+"#maplen", tyInt, Scalar{st.A.Idx(0), tyInt})
	x.setReg(st, i, Scalar{id, i.Type()})
}

func (x *Exec) doMapUpdate(st *State, i *ssa.MapUpdate) {
	mt := i.Map.Type().Underlying().(*types.Map)
	m := x.scalar(st, i.Map)
	g := Neq(m, IntC(0))
	x.oblige(st, "nil", x.anchor(i, "map update"), g, "assignment to entry in nil map", i, nil)
	st.Assume(g)
	x.heldCheckMap(st, i.Map, i, true)
	// call-site style clauses anchored at a map store: "site mapstore:<field> assert ..." (arg0 key, arg1 value)
	if st.Frame.Fn == x.Fn && x.FC != nil && (len(x.FC.Sites) > 0 || len(x.FC.Ghosts) > 0) {
		name := i.Map.Name()
		if u, ok := i.Map.(*ssa.UnOp); ok {
			if fa, ok := u.X.(*ssa.FieldAddr); ok {
				name = fa.X.Type().Underlying().(*types.Pointer).Elem().Underlying().(*types.Struct).Field(fa.Field).Name()
			}
			if a, ok := u.X.(*ssa.Alloc); ok && a.Comment != "" {
				name = a.Comment
			}
		}
		x.siteBefore(st, i, "mapstore:"+name, []Value{x.val(st, i.Key), x.val(st, i.Value)})
	}
	pk, ks := x.mapKeys(st, mt)
	if isStringType(mt.Key()) {
		ks = SInt
	}
	kt := x.mapKeyTerm(st, x.val(st, i.Key), mt.Key())
	pres := x.mapArr(st, pk+"#present", SArr(SInt, SArr(ks, SBool)))
	st.Heap[pk+"#present"] = Store(pres, m, Store(Select(pres, m), kt, TTrue))
	var ls []leaf
	flatten(mt.Elem(), "", &ls)
	ts := st.toTerms(x.coerce(st, x.val(st, i.Value), mt.Elem()), mt.Elem())
	for k, l := range ls {
		key := pk + l.suffix
		arr := x.mapArr(st, key, SArr(SInt, SArr(ks, st.leafSort(l))))
		st.Heap[key] = Store(arr, m, Store(Select(arr, m), kt, ts[k]))
	}
}

func (x *Exec) mapLookup(st *State, m *Term, mt *types.Map, kt *Term) (Value, *Term) {
	pk, ks := x.mapKeys(st, mt)
	if isStringType(mt.Key()) {
		ks = SInt
	}
	pres := x.mapArr(st, pk+"#present", SArr(SInt, SArr(ks, SBool)))
	present := And(Neq(m, IntC(0)), Select(Select(pres, m), kt))
	var ls []leaf
	flatten(mt.Elem(), "", &ls)
	ts := make([]*Term, len(ls))
	for k, l := range ls {
		key := pk + l.suffix
		arr := x.mapArr(st, key, SArr(SInt, SArr(ks, st.leafSort(l))))
		ts[k] = Select(Select(arr, m), kt)
	}
	v := st.fromTerms(mt.Elem(), ts)
	st.assumeLoadedInv(v, mt.Elem())
	return x.iteValue(st, present, v, st.zeroValue(mt.Elem()), mt.Elem()), present
}

func (x *Exec) doLookup(st *State, i *ssa.Lookup) {
	mt, ok := i.X.Type().Underlying().(*types.Map)
	if !ok {
		// string indexing with comma-ok does not exist; Lookup on string = index
		panic("Lookup on non-map")
	}
	x.heldCheckMap(st, i.X, i, false)
	m := x.scalar(st, i.X)
	kt := x.mapKeyTerm(st, x.val(st, i.Index), mt.Key())
	v, present := x.mapLookup(st, m, mt, kt)
	if i.CommaOk {
		x.setReg(st, i, TupleV{v, Scalar{present, tyBool}})
	} else {
		x.setReg(st, i, v)
	}
}

func (x *Exec) mapDelete(st *State, m *Term, mt *types.Map, kt *Term) {
	pk, ks := x.mapKeys(st, mt)
	if isStringType(mt.Key()) {
		ks = SInt
	}
	pres := x.mapArr(st, pk+"#present", SArr(SInt, SArr(ks, SBool)))
	upd := Store(pres, m, Store(Select(pres, m), kt, TFalse))
	st.Heap[pk+"#present"] = Ite(Eq(m, IntC(0)), pres, upd)
}

// ---------------------------------------------------------------------------------------------
// panic, go, channels

func (x *Exec) doPanic(st *State, i *ssa.Panic) {
	may := false
	if fc := x.contractFor(st.Frame.Fn); fc != nil && len(fc.MayPanic) > 0 {
		may = true
	}
	if x.FC != nil && len(x.FC.MayPanic) > 0 && st.Frame.Fn == x.Fn {
		may = true
	}
	if !may {
		x.oblige(st, "no-panic", x.anchor(i, "panic"), TFalse, "explicit panic unreachable", i, nil)
	}
	st.Dead = true
}

func (x *Exec) doGo(st *State, i *ssa.Go) {
	// spawns nothing in the VC; interference is covered by the monitor/rely rules
	c := i.Common()
	name := calleeName(c)
	if f := c.StaticCallee(); f != nil {
		name = FuncName(originOf(f))
	} else if c.IsInvoke() {
		name = c.Method.Name()
	}
	st.Events = append(st.Events, "go:"+name)
}

func calleeName(c *ssa.CallCommon) string {
	if c.IsInvoke() {
		return c.Method.FullName()
	}
	if f := c.StaticCallee(); f != nil {
		return FullName(f)
	}
	return c.Value.Name()
}

// devirtualize: for a value of a concrete repository type stored in an interface, the pure methods
// (uninterpreted functions of the interface value) are tied to the real method bodies when those
// are branch-free getters.
func (x *Exec) devirtualize(st *State, iface *Term, v Value, t types.Type) {
	ms := x.P.SSA.MethodSets.MethodSet(t)
	for i := 0; i < ms.Len(); i++ {
		sel := ms.At(i)
		name := sel.Obj().Name()
		if !pureMethods[name] {
			continue
		}
		fn := x.P.SSA.MethodValue(sel)
		if fn == nil || !x.inRepo(fn) || fn.Signature.Params().Len() != 0 || fn.Signature.Results().Len() != 1 {
			continue
		}
		r, ok := x.runStraight(st, fn, []Value{v})
		if os.Getenv("GOVC_DEBUG") != "" {
			fmt.Fprintf(os.Stderr, "devirtualize %s.%s ok=%v\n", t, name, ok)
		}
		if !ok {
			continue
		}
		rt := fn.Signature.Results().At(0).Type()
		abs := x.pureMethodResult(st, iface, name, rt)
		at, bt := st.toTerms(abs, rt), st.toTerms(x.coerce(st, r, rt), rt)
		if isStringType(rt) {
			// strings: equal as values (same identity is enough for our purposes)
			for k := range at {
				st.Assume(Eq(at[k], bt[k]))
			}
			continue
		}
		for k := range at {
			st.Assume(Eq(at[k], bt[k]))
		}
	}
}

// ---------------------------------------------------------------------------------------------
// range over a map: the iterator is the map plus the set of keys already produced. Next either
// reports exhaustion (every present key was produced) or produces a present key not produced
// before, in an arbitrary order. The map must not be modified by the loop body (not checked:
// stated in the trusted base); a nil map has no keys.

type IterV struct {
	M  *Term
	Mt *types.Map
	V  *Term // Array Key Bool: keys produced so far
}

func (x *Exec) iterKeySort(st *State, mt *types.Map) string {
	_, ks := x.mapKeys(st, mt)
	if isStringType(mt.Key()) {
		ks = SInt
	}
	return ks
}

func (x *Exec) doRangeMap(st *State, i *ssa.Range, mt *types.Map) {
	x.heldCheckMap(st, i.X, i, false)
	m := x.scalar(st, i.X)
	ks := x.iterKeySort(st, mt)
	v0 := Fresh("visited", SArr(ks, SBool))
	k := Fresh("q$k", ks)
	st.Assume(Forall([]*Term{k}, Not(Select(v0, k)), []*Term{Select(v0, k)}))
	x.setReg(st, i, IterV{M: m, Mt: mt, V: v0})
}

func (x *Exec) doNextMap(st *State, i *ssa.Next) bool {
	it := st.Frame.Regs[i.Iter].(IterV)
	mt := it.Mt
	ks := x.iterKeySort(st, mt)
	pk, _ := x.mapKeys(st, mt)
	pres := x.mapArr(st, pk+"#present", SArr(SInt, SArr(ks, SBool)))
	presentAt := func(k *Term) *Term { return And(Neq(it.M, IntC(0)), Select(Select(pres, it.M), k)) }
	// exhausted
	done := x.fork(st)
	{
		k := Fresh("q$k", ks)
		done.Assume(Forall([]*Term{k}, Implies(presentAt(k), Select(it.V, k)), []*Term{Select(it.V, k)}))
		done.Frame.Regs[i] = TupleV{Scalar{TFalse, tyBool}, done.zeroValue(mt.Key()), done.zeroValue(mt.Elem())}
		done.Trace = append(done.Trace, "range:done")
		done.Events = append(done.Events, "range:done")
		done.Frame.PC++
		x.work = append(x.work, done)
	}
	// one more key
	kv := st.freshValue("rk", mt.Key())
	kt := x.mapKeyTerm(st, kv, mt.Key())
	st.Assume(presentAt(kt))
	st.Assume(Not(Select(it.V, kt)))
	val, _ := x.mapLookup(st, it.M, mt, kt)
	st.Frame.Regs[i.Iter] = IterV{M: it.M, Mt: mt, V: Store(it.V, kt, TTrue)}
	st.Frame.Regs[i] = TupleV{Scalar{TTrue, tyBool}, kv, val}
	st.Trace = append(st.Trace, "range:next")
	st.Events = append(st.Events, "range:next")
	return true
}

// havocIters forgets how far the map iterators advanced by the loop body got (they only grow).
func (x *Exec) havocIters(st *State, blocks map[*ssa.BasicBlock]bool) {
	for b := range blocks {
		for _, ins := range b.Instrs {
			nx, ok := ins.(*ssa.Next)
			if !ok {
				continue
			}
			it, ok := st.Frame.Regs[nx.Iter].(IterV)
			if !ok {
				continue
			}
			ks := x.iterKeySort(st, it.Mt)
			nv := Fresh("visited", SArr(ks, SBool))
			k := Fresh("q$k", ks)
			st.Assume(Forall([]*Term{k}, Implies(Select(it.V, k), Select(nv, k)), []*Term{Select(nv, k)}))
			st.Frame.Regs[nx.Iter] = IterV{M: it.M, Mt: it.Mt, V: nv}
		}
	}
}

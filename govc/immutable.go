package main

import (
	"fmt"
	"go/types"
	"sort"
	"strings"

	"golang.org/x/tools/go/ssa"
)

// Immutable fields: a frame rule that needs no solver.
//
//	//@ immutable Manager.wr, Manager.tr
//	//@   props C12
//
// declares that the field is assigned only on objects allocated by the assigning function itself
// (constructors). The declaration is *checked* by a scan of every function of the package in SSA
// form (the field must be unexported, so no other package can assign it): every store through the
// field's address, and every whole-struct store to an object of the type, must go to an object the
// same function allocated; the field's address must not escape (only loads, stores, nested field
// addresses). In exchange, calls (`modifies *` included) and interference never change the field
// of an object, so facts like `m.wr != nil` established at construction survive.

type ImmutableDecl struct {
	Pkg    string
	Type   string
	Field  string
	Props  []string
	File   string
	Line   int
	Prefix string // heap key prefix
}

func (cs *ContractSet) immutableKey(k string) bool {
	for _, d := range cs.Immutables {
		if keyUnder(k, d.Prefix) {
			return true
		}
	}
	return false
}

// CheckImmutable scans the package and returns one obligation per declaration.
func (p *Program) CheckImmutable(d *ImmutableDecl) *Obligation {
	name := fmt.Sprintf("%s.%s.%s:immutable:assigned-only-at-construction", pkgShort(d.Pkg), d.Type, d.Field)
	o := &Obligation{Name: name, Kind: "immutable", Func: pkgShort(d.Pkg) + "." + d.Type, Props: d.Props,
		Text: fmt.Sprintf("field %s.%s is assigned only on objects allocated by the assigning function", d.Type, d.Field),
		Goal: TTrue, Status: "unsat", Solver: "ssa-scan", Pos: fmt.Sprintf("%s:%d", d.File, d.Line)}
	fail := func(msg string) *Obligation {
		o.Goal, o.Status, o.Model = TFalse, "sat", msg
		o.Text += " — " + msg
		return o
	}
	sp := p.SPkgs[d.Pkg]
	if sp == nil {
		return fail("package not loaded")
	}
	obj := sp.Pkg.Scope().Lookup(d.Type)
	if obj == nil {
		return fail("type not found")
	}
	st, ok := obj.Type().Underlying().(*types.Struct)
	if !ok {
		return fail("not a struct type")
	}
	fidx := -1
	for i := 0; i < st.NumFields(); i++ {
		if st.Field(i).Name() == d.Field {
			fidx = i
		}
	}
	if fidx < 0 {
		return fail("field not found")
	}
	if st.Field(fidx).Exported() {
		return fail("field is exported: other packages can assign it")
	}
	named := obj.Type()
	var fns []*ssa.Function
	seen := map[*ssa.Function]bool{}
	var add func(f *ssa.Function)
	add = func(f *ssa.Function) {
		if f == nil || seen[f] || f.Blocks == nil {
			return
		}
		seen[f] = true
		fns = append(fns, f)
		for _, a := range f.AnonFuncs {
			add(a)
		}
	}
	for _, m := range sp.Members {
		switch m := m.(type) {
		case *ssa.Function:
			add(m)
		case *ssa.Type:
			for _, t := range []types.Type{m.Type(), types.NewPointer(m.Type())} {
				ms := p.SSA.MethodSets.MethodSet(t)
				for i := 0; i < ms.Len(); i++ {
					add(p.SSA.MethodValue(ms.At(i)))
				}
			}
		}
	}
	sort.Slice(fns, func(i, j int) bool { return fns[i].String() < fns[j].String() })
	var bad []string
	for _, f := range fns {
		if f.Pkg != sp {
			continue
		}
		for _, b := range f.Blocks {
			for _, ins := range b.Instrs {
				switch i := ins.(type) {
				case *ssa.FieldAddr:
					pt, ok := i.X.Type().Underlying().(*types.Pointer)
					if !ok || !types.Identical(pt.Elem(), named) || i.Field != fidx {
						continue
					}
					if msg := immutableUses(i, isFreshPtr(i.X, 0)); msg != "" {
						bad = append(bad, fmt.Sprintf("%s (%s): %s", f, p.PosString(i.Pos()), msg))
					}
				case *ssa.Store:
					pt, ok := i.Addr.Type().Underlying().(*types.Pointer)
					if ok && types.Identical(pt.Elem(), named) && !isFreshPtr(i.Addr, 0) {
						bad = append(bad, fmt.Sprintf("%s (%s): whole-struct store to an object the function did not allocate", f, p.PosString(i.Pos())))
					}
				}
			}
		}
	}
	if len(bad) > 0 {
		return fail(strings.Join(bad, "; "))
	}
	return o
}

// immutableUses checks the referrers of a field address: loads always, stores only when the object
// is fresh, nested field addresses recursively; anything else lets the address escape.
func immutableUses(addr ssa.Value, fresh bool) string {
	refs := addr.Referrers()
	if refs == nil {
		return ""
	}
	for _, r := range *refs {
		switch r := r.(type) {
		case *ssa.UnOp:
			// load
		case *ssa.Store:
			if r.Addr != addr {
				return "the field's address is stored"
			}
			if !fresh {
				return "assigned on an object the function did not allocate"
			}
		case *ssa.FieldAddr:
			if msg := immutableUses(r, fresh); msg != "" {
				return msg
			}
		case *ssa.IndexAddr:
			if msg := immutableUses(r, fresh); msg != "" {
				return msg
			}
		case *ssa.DebugRef:
		default:
			return fmt.Sprintf("the field's address escapes (%T)", r)
		}
	}
	return ""
}

// isFreshPtr: the pointer is an allocation of this function, possibly read back from a local
// variable that only ever holds such allocations.
func isFreshPtr(v ssa.Value, depth int) bool {
	if depth > 4 {
		return false
	}
	switch v := v.(type) {
	case *ssa.Alloc:
		return true
	case *ssa.UnOp:
		cell, ok := v.X.(*ssa.Alloc)
		if !ok || cell.Referrers() == nil {
			return false
		}
		stores := 0
		for _, r := range *cell.Referrers() {
			switch r := r.(type) {
			case *ssa.UnOp, *ssa.DebugRef:
			case *ssa.Store:
				if r.Addr != cell || !isFreshPtr(r.Val, depth+1) {
					return false
				}
				stores++
			default:
				return false
			}
		}
		return stores > 0
	}
	return false
}

func pkgShort(p string) string {
	if i := strings.LastIndex(p, "/"); i >= 0 {
		return p[i+1:]
	}
	return p
}

package main

// Forward symbolic execution of go/ssa (NaiveForm) with path splitting; emits obligations.

import (
	"fmt"
	"go/constant"
	"go/token"
	"go/types"
	"os"
	"sort"
	"strings"

	"golang.org/x/tools/go/ssa"
)

type Obligation struct {
	Name    string
	Kind    string
	Func    string
	Props   []string // nil = all props of the function
	Assumes []*Term
	Goal    *Term
	Text    string // clause or source text
	Pos     string
	Trace   string
	Cover   bool // must be satisfiable (expect sat)
	// filled by the solver pool
	Status string // unsat, sat, unknown, timeout
	Solver string
	Time   float64
	Model  string
	Query  string
	Inputs map[string]*Term // named input terms for model extraction
	Replay *replayInfo
}

type Exec struct {
	P     *Program
	Fn    *ssa.Function
	FC    *FuncContract
	A     *Arith
	Pkg   string
	Obls  []*Obligation
	Notes []string // outside-subset notes
	work  []*State

	heapSorts       map[string]string
	strIDs          map[string]int64
	strByID         map[int64]string
	syms            []*Term
	memHavocEpoch   int
	heapHavocEpoch  int
	loopInfo        map[*ssa.Function]*loopAnalysis
	siteOrd         map[string]int             // anchor text -> count
	siteName        map[ssa.Instruction]string // stable per-site anchors
	paths           int
	maxPaths        int
	Inputs          map[string]*Term
	ParamVals       map[string]Value
	retCount        int
	calledExterns   map[string]bool
	calledContracts map[string]bool
	inlined         map[string]bool
	unwound         map[string]bool
	postSeen        map[string]int
	siteSeen        map[*Clause]int
	assumeCovers    map[*Clause]int
	volatileKeys    map[string]bool // heap keys of atomic pointers: shared, frame-exempt
	specEval        int       // >0 while a function body is run to evaluate a specification expression: no obligations
	inst            [2]string // binding of a function-typed parameter (instantiate clause)
	ghostSeen       map[*GhostStmt]int
	entry           *State
	Bounded         []string
	specNames       map[*Term]*Term
	usedLemmas      []string
	lastResults     []replayParam
	frameCache      *frameSpec
	condLock        map[*Term]Value
	protKeys        map[string]bool
	heldAtEntry     map[string]bool
	heldEntryObjs   []monObj // monitor instances whose lock the function is entered with (requires held)
	usedPureMethods map[string]bool
	boxedTypes      map[string]types.Type
	ifaceTexts      map[string][]string
	callOrd         map[ssa.Instruction]string
}

func NewExec(p *Program, fn *ssa.Function, fc *FuncContract) *Exec {
	mode := ModeInt
	if fc != nil && fc.ModeSet {
		mode = fc.Mode
	}
	return &Exec{P: p, Fn: fn, FC: fc, A: &Arith{Mode: mode}, Pkg: funcPkgPath(fn),
		heapSorts: map[string]string{}, strIDs: map[string]int64{}, strByID: map[int64]string{},
		loopInfo: map[*ssa.Function]*loopAnalysis{}, siteOrd: map[string]int{}, siteName: map[ssa.Instruction]string{},
		maxPaths: 20000, Inputs: map[string]*Term{}, ParamVals: map[string]Value{},
		calledExterns: map[string]bool{}, calledContracts: map[string]bool{}, inlined: map[string]bool{},
		unwound: map[string]bool{}, postSeen: map[string]int{}, siteSeen: map[*Clause]int{}, ghostSeen: map[*GhostStmt]int{}, condLock: map[*Term]Value{}, heldAtEntry: map[string]bool{}, usedPureMethods: map[string]bool{}, boxedTypes: map[string]types.Type{}}
}

func (x *Exec) noteSym(t *Term) { x.syms = append(x.syms, t) }

func (x *Exec) stringID(s string) int64 {
	if id, ok := x.strIDs[s]; ok {
		return id
	}
	id := -int64(len(x.strIDs) + 1)
	x.strIDs[s] = id
	x.strByID[id] = s
	return id
}

func (x *Exec) note(format string, a ...interface{}) {
	s := fmt.Sprintf(format, a...)
	for _, n := range x.Notes {
		if n == s {
			return
		}
	}
	x.Notes = append(x.Notes, s)
}

func (x *Exec) funcLabel() string {
	short := x.Pkg
	if i := strings.LastIndex(short, "/"); i >= 0 {
		short = short[i+1:]
	}
	if x.inst[0] != "" {
		return short + "." + FuncName(x.Fn) + "[" + x.inst[0] + "=" + x.inst[1] + "]"
	}
	return short + "." + FuncName(x.Fn)
}

// anchor builds a stable per-site anchor: source text plus ordinal among equal texts.
func (x *Exec) anchor(ins ssa.Instruction, fallback string) string {
	if ins == nil {
		return fallback
	}
	if n, ok := x.siteName[ins]; ok {
		return n
	}
	txt := x.P.SrcText(ins.Pos())
	if txt == "" {
		txt = fallback
	}
	fnName := ""
	if ins.Parent() != nil && ins.Parent() != x.Fn {
		fnName = FuncName(ins.Parent()) + "/"
	}
	key := fnName + txt
	x.siteOrd[key]++
	n := fmt.Sprintf("%s#%d", key, x.siteOrd[key])
	x.siteName[ins] = n
	return n
}

func (x *Exec) oblige(st *State, kind, anchor string, goal *Term, text string, ins ssa.Instruction, props []string) {
	if st.Dead || x.specEval > 0 {
		return
	}
	if goal.IsTrue() {
		// still counted: trivially discharged obligations are recorded so vacuity checks can see them
		x.Obls = append(x.Obls, &Obligation{Name: x.funcLabel() + ":" + kind + ":" + anchor, Kind: kind, Func: x.funcLabel(),
			Goal: goal, Text: text, Status: "unsat", Solver: "simplifier", Props: props, Pos: x.posOf(ins)})
		return
	}
	o := &Obligation{Name: x.funcLabel() + ":" + kind + ":" + anchor, Kind: kind, Func: x.funcLabel(), Props: props,
		Assumes: st.AssumeList(), Goal: goal, Text: text, Pos: x.posOf(ins), Trace: strings.Join(st.Trace, " "), Inputs: x.Inputs}
	o.Replay = x.replayInfo(st, nil)
	if kind == "post" && x.lastResults != nil {
		o.Replay = x.replayInfo(st, x.lastResults)
	}
	x.Obls = append(x.Obls, o)
}

func (x *Exec) posOf(ins ssa.Instruction) string {
	if ins == nil {
		return ""
	}
	return x.P.PosString(ins.Pos())
}

// ---------------------------------------------------------------------------------------------
// loops

type loopAnalysis struct {
	heads   map[*ssa.BasicBlock]int                      // loop head -> ordinal (1-based, source order)
	body    map[*ssa.BasicBlock]map[*ssa.BasicBlock]bool // head -> blocks in natural loop
	backsrc map[*ssa.BasicBlock]map[*ssa.BasicBlock]bool // head -> back-edge predecessors
}

func analyzeLoops(fn *ssa.Function) *loopAnalysis {
	la := &loopAnalysis{heads: map[*ssa.BasicBlock]int{}, body: map[*ssa.BasicBlock]map[*ssa.BasicBlock]bool{},
		backsrc: map[*ssa.BasicBlock]map[*ssa.BasicBlock]bool{}}
	var heads []*ssa.BasicBlock
	for _, b := range fn.Blocks {
		for _, p := range b.Preds {
			if b.Dominates(p) {
				if la.backsrc[b] == nil {
					la.backsrc[b] = map[*ssa.BasicBlock]bool{}
					heads = append(heads, b)
				}
				la.backsrc[b][p] = true
			}
		}
	}
	sort.Slice(heads, func(i, j int) bool {
		pi, pj := firstPos(heads[i]), firstPos(heads[j])
		if pi != pj {
			return pi < pj
		}
		return heads[i].Index < heads[j].Index
	})
	for i, h := range heads {
		la.heads[h] = i + 1
		body := map[*ssa.BasicBlock]bool{h: true}
		var stack []*ssa.BasicBlock
		for p := range la.backsrc[h] {
			if !body[p] {
				body[p] = true
				stack = append(stack, p)
			}
		}
		for len(stack) > 0 {
			b := stack[len(stack)-1]
			stack = stack[:len(stack)-1]
			for _, p := range b.Preds {
				if !body[p] {
					body[p] = true
					stack = append(stack, p)
				}
			}
		}
		la.body[h] = body
	}
	return la
}

func firstPos(b *ssa.BasicBlock) token.Pos {
	// position of the loop: smallest valid position among the head's and its body's instructions
	for _, ins := range b.Instrs {
		if ins.Pos().IsValid() {
			return ins.Pos()
		}
	}
	// fall back to successors
	for _, s := range b.Succs {
		for _, ins := range s.Instrs {
			if ins.Pos().IsValid() {
				return ins.Pos()
			}
		}
	}
	return token.NoPos
}

func (x *Exec) loops(fn *ssa.Function) *loopAnalysis {
	la, ok := x.loopInfo[fn]
	if !ok {
		la = analyzeLoops(fn)
		x.loopInfo[fn] = la
	}
	return la
}

// ---------------------------------------------------------------------------------------------
// operand evaluation

func (x *Exec) constValue(st *State, c *ssa.Const) Value {
	t := c.Type()
	if c.Value == nil {
		return st.zeroValue(t)
	}
	switch c.Value.Kind() {
	case constant.Bool:
		return Scalar{Bool(constant.BoolVal(c.Value)), t}
	case constant.String:
		return st.constString(constant.StringVal(c.Value))
	case constant.Int:
		if isIntType(t) {
			return Scalar{st.A.Const(constToBig(c.Value), t), t}
		}
		// int constant of float type etc.
		return Scalar{Fresh("constf", SInt), t}
	default:
		return Scalar{Fresh("const", st.A.SortOf(t)), t}
	}
}

func (x *Exec) val(st *State, v ssa.Value) Value {
	switch c := v.(type) {
	case *ssa.Const:
		return x.constValue(st, c)
	case *ssa.Global:
		return PtrV{Ref: IntC(1), Root: "global:" + c.Pkg.Pkg.Path() + "." + c.Name(), HTy: c.Type().(*types.Pointer).Elem()}
	case *ssa.Function:
		return FuncV{Fn: c}
	case *ssa.Builtin:
		return c
	}
	r, ok := st.Frame.Regs[v]
	if !ok {
		panic(fmt.Sprintf("no value for %s (%T) in %s", v.Name(), v, st.Frame.Fn))
	}
	return r
}

func (x *Exec) scalar(st *State, v ssa.Value) *Term {
	return st.scalarTerm(x.val(st, v), v.Type())
}

// toIdx converts an integer SSA value to the index sort (Go int).
func (x *Exec) toIdx(st *State, v ssa.Value) *Term {
	t := x.scalar(st, v)
	return st.A.Convert(t, v.Type(), tyInt)
}

// ---------------------------------------------------------------------------------------------
// pointers

func (x *Exec) load(st *State, p Value, ty types.Type, ins ssa.Instruction) Value {
	switch q := p.(type) {
	case PtrV:
		switch {
		case q.Cell != nil:
			v, ok := st.Cells[q.Cell]
			if !ok {
				v = st.zeroValue(q.Cell.Ty)
				st.Cells[q.Cell] = v
			}
			for _, i := range q.Path {
				v = v.(StructV).Fields[i]
			}
			return v
		case q.Ref != nil:
			x.nilCheck(st, q.Ref, ins)
			if ins != nil {
				x.heldCheck(st, q, ins, false)
			}
			return st.heapLoad(q.Ref, q.Root, ty)
		case q.Arr != nil:
			return st.memLoad(q.Arr, q.Idx, ty)
		}
	case Scalar:
		// pointer held as a reference: whole-object load
		pt, ok := q.Ty.Underlying().(*types.Pointer)
		if ok {
			x.nilCheck(st, q.T, ins)
			return st.heapLoad(q.T, typeKey(pt.Elem()), ty)
		}
	}
	panic(fmt.Sprintf("load through %T (%v)", p, p))
}

func setPath(v Value, path []int, nv Value) Value {
	if len(path) == 0 {
		return nv
	}
	sv := v.(StructV)
	nf := append([]Value(nil), sv.Fields...)
	nf[path[0]] = setPath(nf[path[0]], path[1:], nv)
	return StructV{Ty: sv.Ty, Fields: nf}
}

func (x *Exec) store(st *State, p Value, ty types.Type, v Value, ins ssa.Instruction) {
	switch q := p.(type) {
	case PtrV:
		switch {
		case q.Cell != nil:
			cur, ok := st.Cells[q.Cell]
			if !ok {
				cur = st.zeroValue(q.Cell.Ty)
			}
			st.Cells[q.Cell] = setPath(cur, q.Path, x.coerce(st, v, ty))
			return
		case q.Ref != nil:
			x.nilCheck(st, q.Ref, ins)
			x.heldCheck(st, q, ins, true)
			var before *State
			if _, _, prot := x.protectedBy(st, q); prot {
				before = st.snapshot()
			}
			st.heapStore(q.Ref, q.Root, ty, v)
			if before != nil {
				x.afterProtectedWrite(st, before, q, ins)
			}
			return
		case q.Arr != nil:
			st.memStore(q.Arr, q.Idx, ty, v)
			return
		}
	case Scalar:
		if pt, ok := q.Ty.Underlying().(*types.Pointer); ok {
			x.nilCheck(st, q.T, ins)
			st.heapStore(q.T, typeKey(pt.Elem()), ty, v)
			return
		}
	}
	panic(fmt.Sprintf("store through %T", p))
}

// coerce normalises untyped constants and nil to the static type.
func (x *Exec) coerce(st *State, v Value, ty types.Type) Value {
	switch c := v.(type) {
	case ConstV:
		return Scalar{st.A.Const(c.V, ty), ty}
	case nil:
		return st.zeroValue(ty)
	}
	return v
}

func (x *Exec) nilCheck(st *State, ref *Term, ins ssa.Instruction) {
	if ref.IsConst() && ref.Val.Sign() != 0 {
		return
	}
	if ref.Op == "+" { // alloc + k : fresh object
		return
	}
	g := Neq(ref, IntC(0))
	if g.IsTrue() {
		return
	}
	x.oblige(st, "nil", x.anchor(ins, "deref"), g, "non-nil pointer", ins, nil)
	st.Assume(g)
}

// ---------------------------------------------------------------------------------------------
// main loop

func (x *Exec) Run(st *State) {
	x.work = append(x.work, st)
	for len(x.work) > 0 {
		s := x.work[len(x.work)-1]
		x.work = x.work[:len(x.work)-1]
		x.runPath(s)
	}
}

func (x *Exec) fork(st *State) *State {
	x.paths++
	return st.clone()
}

func (x *Exec) runPath(st *State) {
	steps := 0
	for !st.Dead && st.Frame != nil {
		steps++
		if steps > 200000 {
			x.note("path step limit reached in %s", x.funcLabel())
			return
		}
		if x.paths > x.maxPaths {
			x.note("path limit reached in %s", x.funcLabel())
			return
		}
		f := st.Frame
		if f.PC >= len(f.Block.Instrs) {
			panic("fell off block")
		}
		ins := f.Block.Instrs[f.PC]
		x.step(st, ins)
		if st.Dead && st.Frame != nil && os.Getenv("GOVC_DEBUG") != "" {
			fmt.Fprintf(os.Stderr, "path died at %s in %s (%s)\n", ins, FuncName(f.Fn), x.P.Fset.Position(ins.Pos()))
		}
	}
}

func (x *Exec) jump(st *State, to *ssa.BasicBlock) {
	f := st.Frame
	from := f.Block
	f.Prev = from
	f.Block = to
	f.PC = 0
	la := x.loops(f.Fn)
	if ord, ok := la.heads[to]; ok {
		x.atLoopHead(st, la, to, from, ord)
	}
}

func (x *Exec) loopSpec(fn *ssa.Function, ord int) *LoopSpec {
	var fc *FuncContract
	if fn == x.Fn {
		fc = x.FC
	} else {
		fc = x.P.CS.Funcs[funcPkgPath(fn)+"."+FuncName(fn)]
	}
	if fc == nil {
		return nil
	}
	return fc.Loops[ord]
}

func (x *Exec) atLoopHead(st *State, la *loopAnalysis, head, from *ssa.BasicBlock, ord int) {
	f := st.Frame
	spec := x.loopSpec(f.Fn, ord)
	isBack := la.backsrc[head][from]
	label := fmt.Sprintf("loop%d", ord)
	if f.Fn != x.Fn {
		label = FuncName(f.Fn) + "/" + label
	}
	if spec == nil || (len(spec.Invariants) == 0 && spec.Unroll == 0 && spec.Bounded == 0) {
		x.note("loop %d of %s has no invariant and no unroll bound: outside the subset", ord, FuncName(f.Fn))
		st.Dead = true
		return
	}
	if len(spec.Invariants) == 0 {
		// unrolling
		n := spec.Unroll
		if n == 0 {
			n = spec.Bounded
		}
		st.Loops[head]++
		if st.Loops[head] > n+1 {
			if spec.Unroll > 0 {
				x.oblige(st, "unwind", label, TFalse, fmt.Sprintf("loop %d runs at most %d iterations", ord, n), head.Instrs[0], nil)
			} else {
				x.Bounded = appendUniq(x.Bounded, fmt.Sprintf("%s loop %d bounded(%d)", FuncName(f.Fn), ord, n))
			}
			st.Dead = true
		}
		return
	}
	env := x.envAt(st)
	if isBack {
		for i, c := range spec.Invariants {
			g := x.evalBool(env, c.Expr)
			x.oblige(st, "inv-preserve", label+":"+clauseLabel(c, i), g, c.Text, head.Instrs[0], c.Props)
		}
		if le := st.InLoop[head]; le != nil && le.snap != nil && len(spec.Steps) > 0 {
			env.Head = le.snap
			tmp := *le.snap
			tmp.Frame = st.Frame
			env.HeadVars = x.envAt(&tmp).Vars
		}
		for i, c := range spec.Steps {
			g := x.evalBool(env, c.Expr)
			x.oblige(st, "step", label+":"+clauseLabel(c, i), g, c.Text, head.Instrs[0], c.Props)
		}
		if le := st.InLoop[head]; le != nil && le.snap != nil && f.Fn == x.Fn && f.Caller == nil {
			x.checkFrameAgainst(st, le.snap, "inv-preserve", label+":frame:", head.Instrs[0])
		}
		if spec.Decreases != nil {
			if le := st.InLoop[head]; le != nil && le.decr != nil {
				cur := x.evalIdx(env, spec.Decreases.Expr)
				g := And(st.A.IdxLt(cur, le.decr), st.A.IdxLe(st.A.Idx(0), le.decr))
				x.oblige(st, "decreases", label, g, spec.Decreases.Text, head.Instrs[0], nil)
			}
		}
		st.Dead = true
		return
	}
	for i, c := range spec.Invariants {
		g := x.evalBool(env, c.Expr)
		x.oblige(st, "inv-entry", label+":"+clauseLabel(c, i), g, c.Text, head.Instrs[0], c.Props)
	}
	x.havocLoop(st, la, head, spec)
	env = x.envAt(st)
	for _, c := range spec.Invariants {
		st.Assume(x.evalBool(env, c.Expr))
	}
	for _, c := range spec.Assumes {
		st.Assume(x.evalBool(env, c.Expr))
	}
	if f.Fn == x.Fn && f.Caller == nil && x.FC != nil {
		x.runGhosts(st, env, fmt.Sprintf("loop:%d", ord))
	}
	le := &loopEntry{}
	if f.Fn == x.Fn && f.Caller == nil && x.FC != nil && (!x.frame().all || len(spec.Steps) > 0) {
		le.snap = st.snapshot()
	}
	if spec.Decreases != nil {
		le.decr = x.evalIdx(env, spec.Decreases.Expr)
	}
	st.InLoop[head] = le
}

func clauseLabel(c *Clause, i int) string {
	if c.Label != "" {
		return c.Label
	}
	return fmt.Sprintf("#%d", i+1)
}

func appendUniq(xs []string, s string) []string {
	for _, y := range xs {
		if y == s {
			return xs
		}
	}
	return append(xs, s)
}

// havocLoop forgets everything the loop body may change.
func (x *Exec) havocLoop(st *State, la *loopAnalysis, head *ssa.BasicBlock, spec *LoopSpec) {
	mod := x.modSetBlocks(st, st.Frame.Fn, la.body[head], map[*ssa.Function]bool{})
	for c := range mod.cells {
		// only cells that exist in this path (addresses are per-frame allocs)
		cell := x.cellOf(st, c)
		if cell == nil {
			continue
		}
		nv := st.freshValue("lv$"+cell.Name, cell.Ty)
		st.Cells[cell] = nv
	}
	if st.Frame.Fn == x.Fn && st.Frame.Caller == nil && x.FC != nil {
		var hk, mk []string
		for k := range mod.heap {
			hk = append(hk, k)
		}
		sort.Strings(hk)
		for k := range mod.mems {
			mk = append(mk, k)
		}
		x.havocFramed(st, hk, mod.allHeap, mk, mod.allMem)
	} else {
		if mod.allHeap {
			st.havocAllHeap()
		} else {
			keys := make([]string, 0, len(mod.heap))
			for k := range mod.heap {
				keys = append(keys, k)
			}
			sort.Strings(keys)
			for _, k := range keys {
				st.havocHeapPrefix(k)
			}
		}
		if mod.allMem {
			st.havocAllMem()
		} else {
			mm := mod.mems
			ev := st.logHavoc(true, func(k string) bool { return mm[k] }, nil)
			for k := range mod.mems {
				if m, ok := st.Mems[k]; ok {
					st.Mems[k] = ev.version(k, m.Sort)
				}
			}
		}
	}
	if mod.alloc {
		st.bumpAlloc()
	}
	x.havocIters(st, la.body[head])
	// ghosts whose update is anchored inside the loop body (a call site, send or map store in one of
	// its blocks, or the head of this or a nested loop) may change in the loop
	if f := st.Frame; f.Fn == x.Fn && x.FC != nil {
		x.siteWithOrdinal(head.Instrs[0], "") // make sure the ordinals are computed
		inLoop := map[string]bool{}
		other := false
		for b := range la.body[head] {
			if ord, ok := la.heads[b]; ok {
				inLoop[fmt.Sprintf("loop:%d", ord)] = true
			}
			for _, ins := range b.Instrs {
				switch ins.(type) {
				case ssa.CallInstruction:
					if n, ok := x.callOrd[ins]; ok {
						inLoop[n] = true
						if i := strings.Index(n, "#"); i > 0 {
							inLoop[n[:i]] = true
						}
					} else {
						other = true // a call without a static name (closure variable, ...)
					}
				case *ssa.Send, *ssa.Select, *ssa.MapUpdate:
					other = true
				}
			}
		}
		anchored := func(at string) bool {
			if strings.HasPrefix(at, "loop:") {
				return inLoop[at]
			}
			for _, pre := range []string{"call:", "after:"} {
				if strings.HasPrefix(at, pre) {
					n := strings.TrimPrefix(at, pre)
					if strings.HasPrefix(n, "send:") || strings.HasPrefix(n, "mapstore:") {
						return other
					}
					if inLoop[n] {
						return true
					}
					// names the ordinal table does not know (dynamic callees) are treated as possibly inside
					known := false
					for _, v := range x.callOrd {
						if v == n || strings.HasPrefix(v, n+"#") {
							known = true
						}
					}
					return !known && other
				}
			}
			return true
		}
		for _, g := range x.FC.Ghosts {
			if g.At == "entry" || !anchored(g.At) {
				continue
			}
			if i := strings.Index(g.LHS, "("); i > 0 {
				key := "gmap:" + strings.TrimSpace(g.LHS[:i])
				st.havocHeapWhere(func(k string) bool { return k == key })
				continue
			}
			switch v := st.Ghost[g.LHS].(type) {
			case Scalar:
				nv := Scalar{Fresh("gh$"+g.LHS, v.T.Sort), v.Ty}
				st.Assume(st.A.RangeInv(nv.T, v.Ty))
				st.Ghost[g.LHS] = nv
			case SliceV:
				st.Ghost[g.LHS] = st.freshValue("gh$"+g.LHS, types.NewSlice(v.Elem))
			case StructV:
				st.Ghost[g.LHS] = st.freshValue("gh$"+g.LHS, v.Ty)
			case StringV:
				st.Ghost[g.LHS] = st.freshValue("gh$"+g.LHS, tyString)
			}
		}
	}
}

type modSet struct {
	cells   map[*ssa.Alloc]bool
	heap    map[string]bool
	mems    map[string]bool
	allHeap bool
	allMem  bool
	alloc   bool
	ghosts  map[string]bool
}

func (x *Exec) cellOf(st *State, a *ssa.Alloc) *Cell {
	for f := st.Frame; f != nil; f = f.Caller {
		if v, ok := f.Regs[a]; ok {
			if p, ok := v.(PtrV); ok && p.Cell != nil {
				return p.Cell
			}
			return nil
		}
	}
	return nil
}

// rootAlloc follows FieldAddr/IndexAddr chains to a local Alloc, if any.
func rootAlloc(v ssa.Value) *ssa.Alloc {
	for {
		switch a := v.(type) {
		case *ssa.Alloc:
			return a
		case *ssa.FieldAddr:
			v = a.X
		case *ssa.IndexAddr:
			if _, ok := a.X.Type().Underlying().(*types.Pointer); ok {
				v = a.X
				continue
			}
			return nil
		default:
			return nil
		}
	}
}

func (x *Exec) modSetBlocks(st *State, fn *ssa.Function, blocks map[*ssa.BasicBlock]bool, seen map[*ssa.Function]bool) *modSet {
	m := &modSet{cells: map[*ssa.Alloc]bool{}, heap: map[string]bool{}, mems: map[string]bool{}, ghosts: map[string]bool{}}
	var addFn func(f *ssa.Function)
	addInstr := func(ins ssa.Instruction) {
		switch i := ins.(type) {
		case *ssa.Store:
			x.modAddr(st, m, i.Addr)
		case *ssa.MapUpdate:
			m.heap["map:"] = true
			m.allHeap = true
		case *ssa.Alloc, *ssa.MakeSlice, *ssa.MakeMap, *ssa.MakeChan, *ssa.MakeInterface, *ssa.MakeClosure:
			m.alloc = true
			if a, ok := i.(*ssa.Alloc); ok && !a.Heap {
				// a local declared inside the loop gets re-initialised each iteration
				m.cells[a] = true
			}
		case *ssa.Convert:
			m.alloc = true
		case ssa.CallInstruction:
			m.alloc = true
			x.modCall(st, m, i, addFn)
		case *ssa.Select, *ssa.Send:
			m.allHeap = true
		case *ssa.UnOp:
			if i.Op == token.ARROW {
				m.allHeap = true
			}
		}
	}
	addFn = func(f *ssa.Function) {
		if seen[f] {
			return
		}
		seen[f] = true
		for _, b := range f.Blocks {
			for _, ins := range b.Instrs {
				addInstr(ins)
			}
		}
	}
	for _, b := range fn.Blocks {
		if blocks != nil && !blocks[b] {
			continue
		}
		for _, ins := range b.Instrs {
			addInstr(ins)
		}
	}
	return m
}

func (x *Exec) modAddr(st *State, m *modSet, addr ssa.Value) {
	if a := rootAlloc(addr); a != nil {
		if !a.Heap || !isNamedStruct(a.Type().(*types.Pointer).Elem()) {
			m.cells[a] = true
			return
		}
	}
	switch a := addr.(type) {
	case *ssa.FieldAddr:
		key, ok := x.staticHeapKey(a)
		if ok {
			m.heap[key] = true
		} else {
			m.allHeap = true
		}
	case *ssa.IndexAddr:
		var elem types.Type
		switch t := a.X.Type().Underlying().(type) {
		case *types.Slice:
			elem = t.Elem()
		case *types.Pointer:
			if at, ok := t.Elem().Underlying().(*types.Array); ok {
				elem = at.Elem()
			}
		}
		if elem == nil {
			m.allMem = true
			return
		}
		var ls []leaf
		flatten(elem, "", &ls)
		for _, l := range ls {
			m.mems[st.memKey(elem, l.suffix)] = true
		}
	case *ssa.Global:
		m.heap["global:"+a.Pkg.Pkg.Path()+"."+a.Name()] = true
	case *ssa.FreeVar, *ssa.Parameter:
		// store through a pointer parameter / captured variable
		if p, ok := st.Frame.Regs[addr]; ok {
			if pv, ok := p.(PtrV); ok && pv.Cell != nil {
				// captured local of an enclosing frame: find its alloc
				for f := st.Frame; f != nil; f = f.Caller {
					for k, v := range f.Regs {
						if al, ok := k.(*ssa.Alloc); ok {
							if q, ok := v.(PtrV); ok && q.Cell == pv.Cell {
								m.cells[al] = true
								return
							}
						}
					}
				}
			}
		}
		m.allHeap = true
		m.allMem = true
	default:
		m.allHeap = true
		m.allMem = true
	}
}

func isNamedStruct(t types.Type) bool {
	_, ok := t.Underlying().(*types.Struct)
	if !ok {
		return false
	}
	_, named := t.(*types.Named)
	return named
}

// staticHeapKey computes the heap key prefix of a FieldAddr chain rooted at a pointer value.
func (x *Exec) staticHeapKey(a *ssa.FieldAddr) (string, bool) {
	var names []string
	var v ssa.Value = a
	for {
		fa, ok := v.(*ssa.FieldAddr)
		if !ok {
			break
		}
		st := fa.X.Type().Underlying().(*types.Pointer).Elem().Underlying().(*types.Struct)
		names = append([]string{st.Field(fa.Field).Name()}, names...)
		v = fa.X
	}
	pt, ok := v.Type().Underlying().(*types.Pointer)
	if !ok {
		return "", false
	}
	return typeKey(pt.Elem()) + "." + strings.Join(names, "."), true
}

func (x *Exec) modCall(st *State, m *modSet, call ssa.CallInstruction, addFn func(*ssa.Function)) {
	com := call.Common()
	if b, ok := com.Value.(*ssa.Builtin); ok {
		switch b.Name() {
		case "append", "copy":
			if len(com.Args) > 0 {
				if sl, ok := com.Args[0].Type().Underlying().(*types.Slice); ok {
					var ls []leaf
					flatten(sl.Elem(), "", &ls)
					for _, l := range ls {
						m.mems[st.memKey(sl.Elem(), l.suffix)] = true
					}
				}
			}
		case "delete":
			m.allHeap = true
		}
		return
	}
	callee := com.StaticCallee()
	if callee == nil {
		if mc, ok := com.Value.(*ssa.MakeClosure); ok {
			callee, _ = mc.Fn.(*ssa.Function)
		}
	}
	if callee == nil && !com.IsInvoke() {
		// function value held in a register: try to resolve through current frame
		if v, ok := st.Frame.Regs[com.Value]; ok {
			if fv, ok := v.(FuncV); ok && fv.Fn != nil {
				callee = fv.Fn
			}
		}
	}
	var fc *FuncContract
	if callee != nil {
		fc = x.contractFor(callee)
	} else if com.IsInvoke() {
		fc = x.externForInvoke(com)
	}
	if fc != nil && !fc.Inline {
		x.modFromContract(st, m, fc)
		return
	}
	if callee != nil && callee.Blocks != nil && x.inRepo(callee) {
		addFn(callee)
		return
	}
	if callee != nil && x.isPureExtern(callee) {
		return
	}
	m.allHeap = true
	m.allMem = true
}

func (x *Exec) modFromContract(st *State, m *modSet, fc *FuncContract) {
	if fc.ModAll {
		m.allHeap = true
		m.allMem = true
		return
	}
	for _, e := range fc.Modifies {
		switch {
		case e.Kind == "call" && e.Args[0].Kind == "ident" && e.Args[0].Name == "mem":
			m.mems["byte"] = true
		case e.Kind == "ident" && e.Name == "maps":
			m.heap["map:"] = true
		case e.Kind == "call" && e.Args[0].Kind == "ident" && e.Args[0].Name == "ghost":
			if len(e.Args) > 1 {
				m.ghosts[e.Args[1].String()] = true
			}
		case e.Kind == "sel":
			// r.f or T.f: havoc the whole field array (sound over-approximation)
			key := x.modKeyOf(fc, e)
			if key == "" {
				m.allHeap = true
			} else {
				m.heap[key] = true
			}
		default:
			m.allHeap = true
		}
	}
}

// modKeyOf maps "r.f.g" in a callee's modifies clause to a heap key using the receiver/param type.
func (x *Exec) modKeyOf(fc *FuncContract, e *Expr) string {
	var names []string
	cur := e
	for cur.Kind == "sel" {
		names = append([]string{cur.Name}, names...)
		cur = cur.Args[0]
	}
	if cur.Kind != "ident" {
		return ""
	}
	// receiver or parameter type
	var ty types.Type
	if fc.Kind == "func" {
		fn := x.P.LookupFunc(fc.Pkg, fc.Name)
		if fn == nil {
			return ""
		}
		for _, p := range fn.Params {
			if p.Name() == cur.Name {
				ty = p.Type()
			}
		}
	}
	if ty == nil {
		// a type name
		if pk := x.P.ByPath[fc.Pkg]; pk != nil {
			if o := pk.Types.Scope().Lookup(cur.Name); o != nil {
				if _, ok := o.(*types.TypeName); ok {
					return typeKey(o.Type()) + "." + strings.Join(names, ".")
				}
			}
		}
		return ""
	}
	if pt, ok := ty.Underlying().(*types.Pointer); ok {
		return typeKey(pt.Elem()) + "." + strings.Join(names, ".")
	}
	return ""
}

func (x *Exec) inRepo(fn *ssa.Function) bool {
	pp := funcPkgPath(fn)
	return x.P.ModPath != "" && (pp == x.P.ModPath || strings.HasPrefix(pp, x.P.ModPath+"/"))
}

// ---------------------------------------------------------------------------------------------
// environment for contract expressions at the current point of the function under verification

func (x *Exec) envAt(st *State) *Env {
	// the outermost frame of the function under contract carries the names
	f := st.Frame
	for f.Caller != nil {
		f = f.Caller
	}
	vars := map[string]Value{}
	for _, p := range f.Fn.Params {
		if v, ok := x.ParamVals[p.Name()]; ok {
			vars[p.Name()+"0"] = v
		}
	}
	// current values of named locals (params are spilled to allocs in NaiveForm)
	seen := map[string]int{}
	var allocs []*ssa.Alloc
	for k := range f.Regs {
		if a, ok := k.(*ssa.Alloc); ok && a.Comment != "" {
			allocs = append(allocs, a)
		}
	}
	sort.Slice(allocs, func(i, j int) bool { return allocs[i].Pos() < allocs[j].Pos() })
	for _, a := range allocs {
		p, ok := f.Regs[a].(PtrV)
		if !ok {
			continue
		}
		var v Value
		if p.Cell != nil {
			v, ok = st.Cells[p.Cell]
			if !ok {
				continue
			}
		} else if p.Ref != nil {
			continue
		}
		name := a.Comment
		seen[name]++
		if seen[name] > 1 {
			vars[fmt.Sprintf("%s#%d", name, seen[name])] = v
		} else {
			vars[name] = v
		}
	}
	for _, p := range f.Fn.Params {
		if _, ok := vars[p.Name()]; !ok {
			if v, ok := f.Regs[p]; ok {
				vars[p.Name()] = v
			}
		}
	}
	// captured variables of a closure under contract: current contents of their cells
	for _, fv := range f.Fn.FreeVars {
		if p, ok := f.Regs[fv].(PtrV); ok && p.Cell != nil {
			if v, ok := st.Cells[p.Cell]; ok {
				vars[fv.Name()] = v
				if ev, ok := x.ParamVals[fv.Name()]; ok {
					vars[fv.Name()+"0"] = ev
				}
			}
		}
	}
	for k, v := range st.Ghost {
		if _, ok := vars[k]; !ok {
			vars[k] = v
		}
	}
	oldVars := map[string]Value{}
	for k, v := range x.ParamVals {
		oldVars[k] = v
	}
	return &Env{X: x, St: st, Old: st.Old, Vars: vars, OldVars: oldVars, FC: x.FC, PkgPath: x.Pkg}
}

func (x *Exec) replayInfo(st *State, results []replayParam) *replayInfo {
	if x.Fn == nil || x.entry == nil {
		return nil
	}
	ri := &replayInfo{Fn: x.Fn, Mode: x.A.Mode, Results: results}
	for _, p := range x.Fn.Params {
		ri.Params = append(ri.Params, replayParam{Name: p.Name(), Ty: p.Type(), V: x.ParamVals[p.Name()]})
	}
	if m, ok := x.entry.Mems["byte"]; ok {
		ri.EntryMem = m
	} else {
		ri.EntryMem = Var("Mem0$byte", st.memSort(st.A.ByteSort()))
	}
	ri.FinalMem = st.Mems["byte"]
	return ri
}

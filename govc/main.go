package main

import (
	"flag"
	"fmt"
	"os"
	"sort"
	"strings"
	"time"
)

func usage() {
	fmt.Fprintln(os.Stderr, `usage:
  govc func  [-repo DIR] [-v] [-keep] PKG NAME      verify one function (debug)
  govc ssa   [-repo DIR] PKG NAME                   dump SSA of a function
  govc check [-repo DIR] [-tier quick|thorough] [-evidence FILE] PROP
  govc list  [-repo DIR]                            list contracts`)
	os.Exit(2)
}

func main() {
	if len(os.Args) < 2 {
		usage()
	}
	cmd := os.Args[1]
	fs := flag.NewFlagSet(cmd, flag.ExitOnError)
	repo := fs.String("repo", "/repo", "module root")
	verbose := fs.Bool("v", false, "verbose")
	keep := fs.Bool("keep", false, "keep SMT queries")
	tier := fs.String("tier", "quick", "quick|thorough")
	evidence := fs.String("evidence", "", "evidence file to write")
	timeout := fs.Int("timeout", 0, "per-solver timeout seconds (default by tier)")
	verifDir := fs.String("verif", "/verif", "verification directory")
	only := fs.String("only", "", "substring filter on obligation names (debug)")
	replayDir := fs.String("replaydir", "", "directory for replay files (default <verif>/replay)")
	fs.Parse(os.Args[2:])
	args := fs.Args()
	switch cmd {
	case "func", "ssa":
		if len(args) < 2 {
			usage()
		}
		pkg, name := args[0], args[1]
		p, err := LoadProgram(*repo, []string{"./..."}, map[string]string{"*": *verifDir + "/contracts/std"})
		if err != nil {
			fmt.Fprintln(os.Stderr, err)
			os.Exit(2)
		}
		full := pkg
		if !strings.Contains(pkg, ".") {
			full = p.ModPath + "/" + pkg
		}
		if cmd == "ssa" {
			fn := p.LookupFunc(full, name)
			if fn == nil {
				fmt.Fprintln(os.Stderr, "not found")
				os.Exit(2)
			}
			fn.WriteTo(os.Stdout)
			la := analyzeLoops(fn)
			for h, o := range la.heads {
				fmt.Printf("loop %d head block %d\n", o, h.Index)
			}
			return
		}
		var results []*FuncResult
		if strings.HasPrefix(name, "lemma:") {
			for _, l := range p.CS.Lemmas {
				if l.Pkg == full && (name == "lemma:*" || l.Name == name[6:]) {
					results = append(results, p.VerifyLemma(l))
				}
			}
		} else {
			fc := p.CS.Funcs[full+"."+name]
			if fc == nil {
				fmt.Fprintf(os.Stderr, "no contract for %s.%s\n", full, name)
				os.Exit(2)
			}
			results = append(results, p.VerifyFunc(fc))
		}
		cfg := solverCfg(*tier, *timeout)
		cfg.KeepQueries = *keep
		if *keep {
			cfg.Dir = "/tmp/govc-keep"
			os.MkdirAll(cfg.Dir, 0o755)
		}
		bad := 0
		for _, res := range results {
			if res.Fault != "" {
				fmt.Println("TOOL-FAULT:", res.Fault)
				bad++
			}
			var obls []*Obligation
			for _, o := range res.Obls {
				if *only == "" || strings.Contains(o.Name, *only) {
					obls = append(obls, o)
				}
			}
			t0 := time.Now()
			SolveAll(cfg, obls)
			fmt.Printf("== %s (%s mode): %d obligations, %d paths, %d returns, %.1fs\n", res.Name, res.Mode, len(obls), res.Paths, res.Returns, time.Since(t0).Seconds())
			for _, n := range res.Notes {
				fmt.Println("   note:", n)
			}
			sort.SliceStable(obls, func(i, j int) bool { return obls[i].Name < obls[j].Name })
			for _, o := range obls {
				ok := o.Discharged()
				if !ok {
					bad++
				}
				if *verbose || !ok {
					mark := "ok  "
					if !ok {
						mark = "FAIL"
					}
					fmt.Printf("  %s %-60s %-8s %-12s %.2fs  %s\n", mark, o.Name, o.Status, o.Solver, o.Time, o.Trace)
					if !ok && *verbose {
						fmt.Println("       goal:", trunc(o.Goal.String(), 600))
						if o.Model != "" {
							fmt.Println("       model:", trunc(strings.Join(strings.Fields(o.Model), " "), 1500))
						}
					}
				}
			}
		}
		if bad > 0 {
			os.Exit(1)
		}
	case "list":
		p, err := LoadProgram(*repo, []string{"./..."}, map[string]string{"*": *verifDir + "/contracts/std"})
		if err != nil {
			fmt.Fprintln(os.Stderr, err)
			os.Exit(2)
		}
		var keys []string
		for k := range p.CS.Funcs {
			keys = append(keys, k)
		}
		sort.Strings(keys)
		for _, k := range keys {
			fc := p.CS.Funcs[k]
			fmt.Printf("%s  props=%v requires=%d ensures=%d\n", k, fc.Props, len(fc.Requires), len(fc.Ensures))
		}
		for _, l := range p.CS.Lemmas {
			fmt.Printf("lemma %s  props=%v\n", l.Name, l.Props)
		}
	case "check":
		if len(args) < 1 {
			usage()
		}
		replayDirOverride = *replayDir
		os.Exit(runCheck(*repo, *verifDir, args[0], *tier, *evidence, *timeout, *verbose))
	default:
		usage()
	}
}

func trunc(s string, n int) string {
	if len(s) > n {
		return s[:n] + "…"
	}
	return s
}

func solverCfg(tier string, timeout int) *SolverCfg {
	cfg := &SolverCfg{Tier: tier, Workers: 12}
	if tier == "thorough" {
		cfg.Timeout = 60 * time.Second
		cfg.FirstTry = 10 * time.Second
		cfg.AllSolvers = true
		cfg.Workers = 5
	} else {
		cfg.Timeout = 10 * time.Second
		cfg.FirstTry = 3 * time.Second
	}
	if timeout > 0 {
		cfg.Timeout = time.Duration(timeout) * time.Second
	}
	return cfg
}

var replayDirOverride string

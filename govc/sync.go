package main

// Concurrency-related semantics: locks, atomics, channels (filled in incrementally).

import (
	"go/types"

	"golang.org/x/tools/go/ssa"
)

type specialFn func(x *Exec, st *State, ins ssa.Instruction, callee *ssa.Function, args []Value) (Value, bool)

var specials = map[string]specialFn{}

func (x *Exec) heldCheck(st *State, p PtrV, ins ssa.Instruction, write bool)             {}
func (x *Exec) heldCheckAddr(st *State, addr ssa.Value, ins ssa.Instruction, write bool) {}
func (x *Exec) heldCheckMap(st *State, m ssa.Value, ins ssa.Instruction, write bool)     {}

func (x *Exec) heldTerm(env *Env, e *Expr) *Term {
	x.fail("held() not available yet")
	return nil
}

func (x *Exec) exitChecks(st *State, env *Env, ret *ssa.Return) {}

func (x *Exec) doSelect(st *State, i *ssa.Select) bool {
	x.note("select in %s: abstracted as nondeterministic choice", FuncName(st.Frame.Fn))
	// fork one path per case (+ default)
	n := len(i.States)
	mk := func(s *State, idx int) {
		var t TupleV
		t = append(t, Scalar{s.A.Const(bigInt(int64(idx)), tyInt), tyInt})
		t = append(t, Scalar{Fresh("recvOk", SBool), tyBool})
		for _, cs := range i.States {
			if cs.Dir == types.RecvOnly {
				et := cs.Chan.Type().Underlying().(*types.Chan).Elem()
				t = append(t, s.freshValue("recv", et))
			}
		}
		s.Frame.Regs[i] = t
	}
	cases := n
	if !i.Blocking {
		cases = n + 1
	}
	for k := 1; k < cases; k++ {
		o := x.fork(st)
		idx := k
		if k == n {
			idx = -1
		}
		mk(o, idx)
		o.Frame.PC++
		x.work = append(x.work, o)
	}
	if cases == 0 {
		st.Dead = true
		return false
	}
	mk(st, 0)
	return true
}

func (x *Exec) doSend(st *State, i *ssa.Send) {
	st.Events = append(st.Events, "send")
}

func (x *Exec) doRecv(st *State, i *ssa.UnOp) {
	et := i.X.Type().Underlying().(*types.Chan).Elem()
	v := st.freshValue("recv", et)
	if i.CommaOk {
		st.Frame.Regs[i] = TupleV{v, Scalar{Fresh("recvOk", SBool), tyBool}}
	} else {
		st.Frame.Regs[i] = v
	}
	st.Events = append(st.Events, "recv")
}

package main

// Concurrency inside a per-function deductive framework (DESIGN 2.8):
//   monitor T.mu  protects f...   invariant I   published P   guarantee G
// Lock: interference (protected fields havocked under G and P), assume I.  Unlock: assert I.
// Every write to a protected field while the lock is held is a visible step: P must hold after it
// and G must relate the states before and after it.  Lock-free readers (atomic loads, reads of
// fields that G makes stable) see interference at every such access.

import (
	"sort"
	"fmt"
	"go/token"
	"go/types"
	"strings"

	"golang.org/x/tools/go/ssa"
)

type specialFn func(x *Exec, st *State, ins ssa.Instruction, callee *ssa.Function, args []Value) (Value, bool)

var specials = map[string]specialFn{}

func init() {
	specials["(*sync.Mutex).Lock"] = func(x *Exec, st *State, ins ssa.Instruction, c *ssa.Function, a []Value) (Value, bool) {
		x.lockOp(st, ins, a[0], "lock")
		return nil, true
	}
	specials["(*sync.Mutex).Unlock"] = func(x *Exec, st *State, ins ssa.Instruction, c *ssa.Function, a []Value) (Value, bool) {
		x.lockOp(st, ins, a[0], "unlock")
		return nil, true
	}
	specials["(*sync.Mutex).TryLock"] = func(x *Exec, st *State, ins ssa.Instruction, c *ssa.Function, a []Value) (Value, bool) {
		return x.tryLock(st, ins, a[0]), true
	}
	specials["sync/atomic.LoadUint32"] = func(x *Exec, st *State, ins ssa.Instruction, c *ssa.Function, a []Value) (Value, bool) {
		return x.atomicLoad(st, ins, a[0], types.Typ[types.Uint32]), true
	}
	specials["sync/atomic.StoreUint32"] = func(x *Exec, st *State, ins ssa.Instruction, c *ssa.Function, a []Value) (Value, bool) {
		x.atomicStore(st, ins, a[0], a[1], types.Typ[types.Uint32])
		return nil, true
	}
	specials["sync/atomic.LoadInt32"] = func(x *Exec, st *State, ins ssa.Instruction, c *ssa.Function, a []Value) (Value, bool) {
		return x.atomicLoad(st, ins, a[0], types.Typ[types.Int32]), true
	}
	specials["sync/atomic.StoreInt32"] = func(x *Exec, st *State, ins ssa.Instruction, c *ssa.Function, a []Value) (Value, bool) {
		x.atomicStore(st, ins, a[0], a[1], types.Typ[types.Int32])
		return nil, true
	}
	for _, n := range []string{"AddUint64", "AddInt64", "AddUint32", "AddInt32"} {
		name := n
		specials["sync/atomic."+name] = func(x *Exec, st *State, ins ssa.Instruction, c *ssa.Function, a []Value) (Value, bool) {
			// counters: the location takes an unknown new value (other goroutines add concurrently)
			rt := c.Signature.Results().At(0).Type()
			v := st.freshValue("atomicadd", rt)
			if p, ok := a[0].(PtrV); ok && p.Ref != nil {
				x.nilCheck(st, p.Ref, ins)
				st.heapStore(p.Ref, p.Root, rt, v)
			}
			return v, true
		}
	}
	specials["(*sync.Cond).Wait"] = func(x *Exec, st *State, ins ssa.Instruction, c *ssa.Function, a []Value) (Value, bool) {
		x.condWait(st, ins, a[0])
		return nil, true
	}
	specials["(*sync.Cond).Broadcast"] = func(x *Exec, st *State, ins ssa.Instruction, c *ssa.Function, a []Value) (Value, bool) {
		st.Events = append(st.Events, "broadcast")
		return nil, true
	}
	specials["(*sync.Cond).Signal"] = func(x *Exec, st *State, ins ssa.Instruction, c *ssa.Function, a []Value) (Value, bool) {
		st.Events = append(st.Events, "signal-one")
		return nil, true
	}
	specials["(*sync/atomic.Pointer).Load"] = func(x *Exec, st *State, ins ssa.Instruction, c *ssa.Function, a []Value) (Value, bool) {
		rt := c.Signature.Results().At(0).Type()
		if p, ok := a[0].(PtrV); ok && p.Ref != nil {
			x.nilCheck(st, p.Ref, ins)
			// an atomic pointer is shared: unless this function allocated the object itself, any other
			// goroutine may have stored into it since the last look
			x.markVolatile(p.Root+".ptr", rt)
			if !x.constructing(st, monObj{ref: p.Ref}) {
				st.havocHeapAt(p.Ref, p.Root+".ptr", rt)
			}
			return st.heapLoad(p.Ref, p.Root+".ptr", rt), true
		}
		return st.freshValue("aload", rt), true
	}
	specials["(*sync/atomic.Pointer).Store"] = func(x *Exec, st *State, ins ssa.Instruction, c *ssa.Function, a []Value) (Value, bool) {
		if p, ok := a[0].(PtrV); ok && p.Ref != nil {
			x.nilCheck(st, p.Ref, ins)
			x.markVolatile(p.Root+".ptr", c.Signature.Params().At(0).Type())
			st.heapStore(p.Ref, p.Root+".ptr", c.Signature.Params().At(0).Type(), a[1])
		}
		return nil, true
	}
	specials["(*sync.Once).Do"] = func(x *Exec, st *State, ins ssa.Instruction, c *ssa.Function, a []Value) (Value, bool) {
		// either this call runs f (first call) or f has already completed in an earlier call
		other := x.fork(st)
		other.Trace = append(other.Trace, "once:skip")
		other.Events = append(other.Events, "once-skip")
		other.Frame.PC++
		x.work = append(x.work, other)
		st.Trace = append(st.Trace, "once:run")
		st.Events = append(st.Events, "once-run")
		fv, ok := a[1].(FuncV)
		if !ok || fv.Fn == nil {
			x.havocReachable(st, a)
			return nil, true
		}
		x.pushFrame(st, ins, fv.Fn, nil, fv.Bind, nil)
		return nil, false
	}
	specials["sync.NewCond"] = func(x *Exec, st *State, ins ssa.Instruction, c *ssa.Function, a []Value) (Value, bool) {
		// the condition variable remembers its locker: box the lock pointer
		id := st.freshID()
		x.condLock[id] = a[0]
		return Scalar{id, c.Signature.Results().At(0).Type()}, true
	}
}

// monObj identifies a monitor instance: the struct that contains the lock.
type monObj struct {
	ref  *Term
	root string // heap root of the containing struct
	ty   types.Type
	mon  *MonitorSpec
	// lockRoot: the monitor's lock is a wrapper mutex (a struct field with a monitor of its own, e.g.
	// Stream.write of type inspectMutex): the lock that is actually taken is identified by this root.
	lockRoot string
}

func (m monObj) key() string {
	if m.lockRoot != "" {
		return fmt.Sprintf("%s@%d", m.lockRoot, m.ref.id)
	}
	return fmt.Sprintf("%s@%d", m.root, m.ref.id)
}

// wrapperLockRoot: if the monitor's lock field is itself a struct with a monitor (a wrapper around
// sync.Mutex), the held key is the one of that inner lock.
func (x *Exec) wrapperLockRoot(root string, ty types.Type, mon *MonitorSpec) string {
	st, ok := ty.Underlying().(*types.Struct)
	if !ok {
		return ""
	}
	for i := 0; i < st.NumFields(); i++ {
		if st.Field(i).Name() == mon.Lock {
			if x.monitorOfType(st.Field(i).Type()) != nil {
				return root + "." + mon.Lock
			}
		}
	}
	return ""
}

func (x *Exec) monitorOfType(t types.Type) *MonitorSpec {
	n, ok := t.(*types.Named)
	if !ok {
		if p, ok := t.(*types.Pointer); ok {
			return x.monitorOfType(p.Elem())
		}
		return nil
	}
	o := n.Origin().Obj()
	if o.Pkg() == nil {
		return nil
	}
	for _, m := range x.P.CS.Monitors {
		if m.Pkg == o.Pkg().Path() && m.Type == o.Name() {
			return m
		}
	}
	return nil
}

// lockOwner maps a pointer to a lock field (&obj.mu) to the monitor object.
func (x *Exec) lockOwner(st *State, lockPtr Value) (monObj, string, bool) {
	p, ok := lockPtr.(PtrV)
	if !ok || p.Ref == nil {
		return monObj{}, "", false
	}
	i := strings.LastIndex(p.Root, ".")
	if i < 0 {
		return monObj{}, "", false
	}
	root, field := p.Root[:i], p.Root[i+1:]
	ty := x.rootType(root)
	if ty == nil {
		return monObj{ref: p.Ref, root: root}, field, true
	}
	mon := x.monitorOfType(ty)
	if mon != nil && mon.Lock != field {
		mon = nil
	}
	return monObj{ref: p.Ref, root: root, ty: ty, mon: mon}, field, true
}

// rootType resolves a heap root like "pkg.T.f.g" to the Go type of that location.
func (x *Exec) rootType(root string) types.Type {
	// find the longest prefix that names a type
	parts := strings.Split(root, ".")
	for cut := len(parts); cut >= 2; cut-- {
		pkgType := strings.Join(parts[:cut], ".")
		j := strings.LastIndex(pkgType, ".")
		pkgPath, tn := pkgType[:j], pkgType[j+1:]
		pk := x.P.ByPath[pkgPath]
		if pk == nil {
			continue
		}
		o := pk.Types.Scope().Lookup(tn)
		if o == nil {
			continue
		}
		t := o.Type()
		okPath := true
		for _, f := range parts[cut:] {
			st, ok := t.Underlying().(*types.Struct)
			if !ok {
				okPath = false
				break
			}
			found := false
			for k := 0; k < st.NumFields(); k++ {
				if st.Field(k).Name() == f {
					t = st.Field(k).Type()
					found = true
				}
			}
			if !found {
				okPath = false
				break
			}
		}
		if okPath {
			return t
		}
	}
	return nil
}

func (x *Exec) monEnv(st, old *State, m monObj) *Env {
	self := PtrV{Ref: m.ref, Root: m.root, HTy: m.ty}
	vars := map[string]Value{"self": self}
	return &Env{X: x, St: st, Old: old, Vars: vars, OldVars: vars, PkgPath: m.mon.Pkg}
}

func (x *Exec) fieldType(t types.Type, name string) types.Type {
	stt, ok := t.Underlying().(*types.Struct)
	if !ok {
		return nil
	}
	for i := 0; i < stt.NumFields(); i++ {
		if stt.Field(i).Name() == name {
			return stt.Field(i).Type()
		}
	}
	return nil
}

// interfere: other goroutines may have run; protected fields take new values related to the last
// observed ones by the guarantee G and satisfying the publication invariant P (and I if atLock).
func (x *Exec) interfere(st *State, m monObj, atLock bool) {
	if m.mon == nil {
		return
	}
	before := st.snapshot()
	for _, f := range m.mon.Protects {
		ft := x.fieldType(m.ty, f)
		if ft == nil {
			x.fail("monitor %s: no field %s", m.mon.Type, f)
		}
		st.havocHeapAt(m.ref, m.root+"."+f, ft)
	}
	// closed state of monitor-owned channels may change too (only towards closed: stated in G)
	for _, f := range m.mon.Chans {
		ft := x.fieldType(m.ty, f)
		chNew := st.heapLoad(m.ref, m.root+"."+f, ft).(Scalar).T
		st.havocHeapAt(chNew, "chan", tyBool)
		chOld := before.heapLoad(m.ref, m.root+"."+f, ft).(Scalar).T
		if chOld != chNew {
			st.havocHeapAt(chOld, "chan", tyBool)
		}
	}
	env := x.monEnv(st, before, m)
	for _, c := range m.mon.Guars {
		st.Assume(x.evalBool(env, c.Expr))
	}
	for _, c := range m.mon.Pubs {
		st.Assume(x.evalBool(env, c.Expr))
	}
	for _, c := range m.mon.Relies {
		st.Assume(x.evalBool(env, c.Expr))
	}
	if atLock {
		for _, c := range m.mon.Invs {
			st.Assume(x.evalBool(env, c.Expr))
		}
	}
	// axioms about package-level state are facts of every reachable state
	x.entryAssumptions(st, nil)
}

// touchEmbeddedMonitors makes the protected fields of every monitor embedded (by value, at any depth)
// in a struct type present in the state, so that every later interference step relates their new
// values to the old ones by the guarantee (a field first touched after a havoc starts unrelated).
func (x *Exec) touchEmbeddedMonitors(st *State, root string, t types.Type, depth int) {
	stt, ok := t.Underlying().(*types.Struct)
	if !ok || depth > 6 {
		return
	}
	if mon := x.monitorOfType(t); mon != nil {
		for _, f := range mon.Protects {
			ft := x.fieldType(t, f)
			if ft == nil {
				continue
			}
			var ls []leaf
			flatten(ft, "", &ls)
			for _, l := range ls {
				st.heapArr(root+"."+f+l.suffix, st.leafSort(l))
			}
		}
	}
	for i := 0; i < stt.NumFields(); i++ {
		ft := stt.Field(i).Type()
		if _, isStruct := ft.Underlying().(*types.Struct); isStruct {
			x.touchEmbeddedMonitors(st, root+"."+stt.Field(i).Name(), ft, depth+1)
		}
	}
}

// interfereAll: a callee (and, while it runs, every other goroutine) may change the protected fields
// of ANY monitor instance, not just of the objects passed to it: every protected field array that
// this path has touched gets a new version, related to the old one, for every object, by the
// monitor's guarantee and publication invariant. Instances whose lock this goroutine holds keep
// their values unless the callee is entered with locks held (requires held(...)).
func (x *Exec) interfereAll(st *State, calleeHoldsLocks bool, ground ...*Term) {
	type inst struct {
		root string
		ty   types.Type
		mon  *MonitorSpec
	}
	roots := map[string]inst{}
	for k := range st.Heap {
		base := k
		if i := strings.Index(base, "#"); i >= 0 {
			base = base[:i]
		}
		parts := strings.Split(base, ".")
		for cut := len(parts) - 1; cut >= 2; cut-- {
			root := strings.Join(parts[:cut], ".")
			ty := x.rootType(root)
			if ty == nil {
				continue
			}
			if mon := x.monitorOfType(ty); mon != nil {
				for _, f := range mon.Protects {
					if f == parts[cut] {
						roots[root] = inst{root, ty, mon}
					}
				}
			}
		}
	}
	if len(roots) == 0 {
		return
	}
	before := st.snapshot()
	ev := st.logHavoc(false, func(k string) bool { return x.keyIsProtected(k) }, nil)
	var changed []string
	for k, h := range st.Heap {
		if ev.covers(k) {
			st.Heap[k] = ev.version(k, h.Sort)
			changed = append(changed, k)
		}
	}
	sort.Strings(changed)
	var names []string
	for r := range roots {
		names = append(names, r)
	}
	sort.Strings(names)
	for _, r := range names {
		in := roots[r]
		// instances of this root whose lock this goroutine holds
		var heldRefs []*Term
		for hk := range st.Held {
			if m, ok := st.monObjs[hk]; ok && (m.root == r || m.lockRoot != "" && strings.HasPrefix(m.lockRoot, r+".")) && m.ref != nil {
				heldRefs = append(heldRefs, m.ref)
			}
		}
		o := Fresh("q$o", SInt)
		m := monObj{ref: o, root: r, ty: in.ty, mon: in.mon}
		// evaluate on scratch copies: facts the evaluation records about the loaded values (type ranges)
		// mention the bound object and belong inside the quantifier
		cur, old := *st, *before
		mark := st.Assumes
		cur.Assumes, old.Assumes = mark, mark
		env := x.monEnv(&cur, &old, m)
		var body []*Term
		for _, c := range in.mon.Guars {
			body = append(body, x.evalBool(env, c.Expr))
		}
		for _, c := range in.mon.Pubs {
			body = append(body, x.evalBool(env, c.Expr))
		}
		var side []*Term
		for _, sc := range []*State{&cur, &old} {
			for n := sc.Assumes; n != nil && n != mark; n = n.parent {
				side = append(side, n.t)
			}
		}
		body = append(side, body...) // type-range facts of the loaded values hold for every object
		guard := TTrue
		if !calleeHoldsLocks {
			for _, hr := range heldRefs {
				guard = And(guard, Neq(o, hr))
				// the held instance is untouched
				for _, k := range changed {
					if keyUnder(k, r) {
						st.Assume(Eq(Select(st.Heap[k], hr), Select(before.Heap[k], hr)))
					}
				}
			}
		}
		if len(body) > 0 {
			var pat []*Term
			for _, k := range changed {
				if keyUnder(k, r) {
					pat = []*Term{Select(st.Heap[k], o)}
					break
				}
			}
			all := Implies(guard, And(body...))
			st.Assume(Forall([]*Term{o}, all, pat))
			// ground instances for the objects at hand (the call's pointer arguments and the monitor
			// objects this path has locked): saves the solver the instantiation
			seen := map[*Term]bool{}
			inst := func(r *Term) {
				if r == nil || seen[r] {
					return
				}
				seen[r] = true
				st.Assume(Subst(all, map[*Term]*Term{o: r}))
			}
			for _, g := range ground {
				inst(g)
			}
			for _, mo := range st.monObjs {
				if mo.root == r {
					inst(mo.ref)
				}
			}
		}
	}
	x.entryAssumptions(st, nil)
}

// keyIsProtected: the heap key names a monitor-protected field (volatile: exempt from frame conditions).
func (x *Exec) keyIsProtected(k string) bool {
	if v, ok := x.protKeys[k]; ok {
		return v
	}
	base := k
	if i := strings.Index(base, "#"); i >= 0 {
		base = base[:i]
	}
	parts := strings.Split(base, ".")
	res := false
	for cut := len(parts) - 1; cut >= 2 && !res; cut-- {
		ty := x.rootType(strings.Join(parts[:cut], "."))
		if ty == nil {
			continue
		}
		if mon := x.monitorOfType(ty); mon != nil {
			for _, f := range mon.Protects {
				if f == parts[cut] {
					res = true
				}
			}
		}
	}
	if x.protKeys == nil {
		x.protKeys = map[string]bool{}
	}
	x.protKeys[k] = res
	return res
}

func (x *Exec) lockOp(st *State, ins ssa.Instruction, lockPtr Value, op string) {
	m, _, ok := x.lockOwner(st, lockPtr)
	if !ok {
		x.note("lock operation on an untracked mutex in %s", FuncName(st.Frame.Fn))
		return
	}
	k := m.key()
	switch op {
	case "lock":
		if st.Held[k] != nil {
			x.oblige(st, "deadlock", x.anchor(ins, "Lock"), TFalse, "lock is not already held by this goroutine", ins, nil)
		}
		st.Events = append(st.Events, "lock:"+m.root)
		x.interfere(st, m, true)
		// a wrapper mutex (field of an outer struct whose monitor names it as its lock): the outer
		// monitor's protected fields may have been changed by whoever held the lock before
		if j := strings.LastIndex(m.root, "."); j > 0 {
			if oty := x.rootType(m.root[:j]); oty != nil {
				if omon := x.monitorOfType(oty); omon != nil && omon.Lock == m.root[j+1:] {
					x.interfere(st, monObj{ref: m.ref, root: m.root[:j], ty: oty, mon: omon, lockRoot: m.root}, true)
				}
			}
		}
		st.Held[k] = TTrue
		st.monObjs[k] = m
		st.lockSnap[k] = st.snapshot()
	case "unlock":
		if st.Held[k] == nil {
			x.oblige(st, "held", x.anchor(ins, "Unlock"), TFalse, "unlock of a lock that is held", ins, nil)
		}
		x.checkMonitorFree(st, ins, m, "unlock")
		delete(st.Held, k)
		st.Events = append(st.Events, "unlock:"+m.root)
	}
}

// markVolatile: the heap keys of an atomic pointer are shared state that any goroutine may change at
// any time: exempt from frame conditions (every Load re-reads).
func (x *Exec) markVolatile(root string, t types.Type) {
	if x.volatileKeys == nil {
		x.volatileKeys = map[string]bool{}
	}
	var ls []leaf
	flatten(t, "", &ls)
	for _, l := range ls {
		x.volatileKeys[root+l.suffix] = true
	}
}

// monitorHasCond: the monitor's struct has a sync.Cond field (waiters block on conditions over the
// protected fields).
func (x *Exec) monitorHasCond(m monObj) bool {
	if m.mon == nil || m.ty == nil {
		return false
	}
	stt, ok := m.ty.Underlying().(*types.Struct)
	if !ok {
		return false
	}
	for i := 0; i < stt.NumFields(); i++ {
		if n, ok := stt.Field(i).Type().(*types.Named); ok && n.Obj().Pkg() != nil && n.Obj().Pkg().Path() == "sync" && n.Obj().Name() == "Cond" {
			return true
		}
	}
	return false
}

// checkWakeAll: in a monitor with a condition variable, every write to a protected field is followed
// by a Broadcast before the lock is released (Unlock or Wait): waiters of every kind re-check their
// condition after each change; Signal would wake only one of them.
func (x *Exec) checkWakeAll(st *State, ins ssa.Instruction, m monObj, what string) {
	if !x.monitorHasCond(m) {
		return
	}
	last, woke := -1, false
	for i, ev := range st.Events {
		if ev == "pwrite:"+m.root {
			last, woke = i, false
		} else if ev == "broadcast" && last >= 0 {
			woke = true
		}
	}
	if last < 0 {
		return
	}
	g := TTrue
	if !woke {
		g = TFalse
	}
	x.oblige(st, "wake-all", x.anchor(ins, what), g,
		fmt.Sprintf("every change of %s's protected fields is followed by Broadcast before the lock is released", m.mon.Type), ins, nil)
}

// checkMonitorFree asserts the monitor invariant (and P) at a point where the lock is released.
func (x *Exec) checkMonitorFree(st *State, ins ssa.Instruction, m monObj, what string) {
	x.checkWakeAll(st, ins, m, what)
	if m.mon == nil {
		return
	}
	env := x.monEnv(st, st, m)
	site := x.anchor(ins, what)
	for i, c := range m.mon.Invs {
		g := x.evalBool(env, c.Expr)
		x.oblige(st, "monitor-inv", site+":"+clauseLabel(c, i), g, m.mon.Type+"."+m.mon.Lock+" invariant: "+c.Text, ins, c.Props)
	}
}

func (x *Exec) tryLock(st *State, ins ssa.Instruction, lockPtr Value) Value {
	m, _, ok := x.lockOwner(st, lockPtr)
	got := Fresh("trylock", SBool)
	if !ok {
		return Scalar{got, tyBool}
	}
	// fork: acquired / not acquired
	other := x.fork(st)
	other.Assume(Not(got))
	other.Frame.Regs[ins.(ssa.Value)] = Scalar{TFalse, tyBool}
	other.Trace = append(other.Trace, "trylock:F")
	other.Frame.PC++
	x.work = append(x.work, other)
	st.Assume(got)
	st.Trace = append(st.Trace, "trylock:T")
	k := m.key()
	st.Events = append(st.Events, "lock:"+m.root)
	x.interfere(st, m, true)
	st.Held[k] = TTrue
	st.monObjs[k] = m
	st.lockSnap[k] = st.snapshot()
	return Scalar{TTrue, tyBool}
}

func (x *Exec) condWait(st *State, ins ssa.Instruction, cond Value) {
	// Wait releases the lock, blocks, re-acquires: invariant asserted, interference, invariant assumed
	c, ok := cond.(Scalar)
	if !ok {
		return
	}
	lp, ok := x.condLock[c.T]
	if !ok {
		// cond created elsewhere (constructor): find the single held monitor of the receiver type
		for k, m := range st.monObjs {
			if st.Held[k] != nil && m.mon != nil {
				x.checkMonitorFree(st, ins, m, "Wait")
				x.interfere(st, m, true)
				st.Events = append(st.Events, "wait:"+m.root)
			}
		}
		return
	}
	m, _, ok := x.lockOwner(st, lp)
	if ok {
		x.checkMonitorFree(st, ins, m, "Wait")
		x.interfere(st, m, true)
		st.Events = append(st.Events, "wait:"+m.root)
	}
}

// protectedBy finds the monitor object and field for a heap location, if it is a protected field.
func (x *Exec) protectedBy(st *State, p PtrV) (monObj, string, bool) {
	if p.Ref == nil || p.Root == "" {
		return monObj{}, "", false
	}
	// p.Root = <root>.<field>[.<sub>...]; try every split
	parts := strings.Split(p.Root, ".")
	for cut := len(parts) - 1; cut >= 2; cut-- {
		root := strings.Join(parts[:cut], ".")
		ty := x.rootType(root)
		if ty == nil {
			continue
		}
		mon := x.monitorOfType(ty)
		if mon == nil {
			continue
		}
		for _, f := range mon.Protects {
			if f == parts[cut] {
				return monObj{ref: p.Ref, root: root, ty: ty, mon: mon, lockRoot: x.wrapperLockRoot(root, ty, mon)}, f, true
			}
		}
	}
	return monObj{}, "", false
}

func isAtomicField(mon *MonitorSpec, f string) bool {
	for _, a := range mon.Atomic {
		if a == f {
			return true
		}
	}
	return false
}

// heldCheck is called for every plain load/store through a heap pointer.
func (x *Exec) heldCheck(st *State, p PtrV, ins ssa.Instruction, write bool) {
	m, f, ok := x.protectedBy(st, p)
	if !ok {
		return
	}
	if x.constructing(st, m) {
		return
	}
	k := m.key()
	if st.Held[k] != nil {
		if write && x.monitorHasCond(m) {
			st.Events = append(st.Events, "pwrite:"+m.root)
		}
		return
	}
	if write {
		x.oblige(st, "held", x.anchor(ins, "write "+f), TFalse,
			fmt.Sprintf("write to %s.%s requires %s.%s", m.mon.Type, f, m.mon.Type, m.mon.Lock), ins, nil)
		return
	}
	// lock-free read: allowed only if G makes the field stable given what has been observed
	before := st.snapshot()
	ft := x.fieldType(m.ty, f)
	x.interfere(st, m, false)
	oldV := before.heapLoad(m.ref, m.root+"."+f, ft)
	newV := st.heapLoad(m.ref, m.root+"."+f, ft)
	eq := x.valuesEqual(st, oldV, newV, ft)
	x.oblige(st, "stable-read", x.anchor(ins, "read "+f), eq,
		fmt.Sprintf("unlocked read of %s.%s: the field is stable (by the guarantee) given what was observed", m.mon.Type, f), ins, nil)
	st.Assume(eq)
}

// constructing: the object was allocated by this function invocation and is not yet shared.
func (x *Exec) constructing(st *State, m monObj) bool {
	return m.ref.Op == "+" && len(m.ref.Args) == 2 && m.ref.Args[0].Op == "var" && strings.HasPrefix(m.ref.Args[0].Name, "alloc")
}

func (x *Exec) heldCheckAddr(st *State, addr ssa.Value, ins ssa.Instruction, write bool) {
	if v, ok := st.Frame.Regs[addr]; ok {
		if p, ok := v.(PtrV); ok && p.Ref != nil {
			x.heldCheck(st, p, ins, write)
		}
	}
}

func (x *Exec) heldCheckMap(st *State, m ssa.Value, ins ssa.Instruction, write bool) {}

// afterProtectedWrite: a write to a protected field is a step visible to lock-free readers.
func (x *Exec) afterProtectedWrite(st, before *State, p PtrV, ins ssa.Instruction) {
	m, f, ok := x.protectedBy(st, p)
	if !ok || m.mon == nil || x.constructing(st, m) {
		return
	}
	x.checkStep(st, before, m, ins, "write "+f)
}

func (x *Exec) checkStep(st, before *State, m monObj, ins ssa.Instruction, what string) {
	env := x.monEnv(st, before, m)
	site := x.anchor(ins, what)
	for i, c := range m.mon.Pubs {
		g := x.evalBool(env, c.Expr)
		x.oblige(st, "publish", site+":"+clauseLabel(c, i), g, "publication invariant after this step: "+c.Text, ins, c.Props)
	}
	for i, c := range m.mon.Guars {
		g := x.evalBool(env, c.Expr)
		x.oblige(st, "guarantee", site+":"+clauseLabel(c, i), g, "two-state guarantee across this step: "+c.Text, ins, c.Props)
	}
}

func (x *Exec) atomicLoad(st *State, ins ssa.Instruction, addr Value, ty types.Type) Value {
	p, ok := addr.(PtrV)
	if !ok || p.Ref == nil {
		return x.load(st, addr, ty, ins)
	}
	if m, _, ok := x.protectedBy(st, p); ok && st.Held[m.key()] == nil && !x.constructing(st, m) {
		x.interfere(st, m, false)
	}
	return st.heapLoad(p.Ref, p.Root, ty)
}

func (x *Exec) atomicStore(st *State, ins ssa.Instruction, addr, v Value, ty types.Type) {
	p, ok := addr.(PtrV)
	if !ok || p.Ref == nil {
		x.store(st, addr, ty, v, ins)
		return
	}
	m, f, prot := x.protectedBy(st, p)
	if prot && st.Held[m.key()] == nil && !x.constructing(st, m) {
		x.oblige(st, "held", x.anchor(ins, "atomic store "+f), TFalse,
			fmt.Sprintf("atomic store to %s.%s requires %s.%s", m.mon.Type, f, m.mon.Type, m.mon.Lock), ins, nil)
	}
	before := st.snapshot()
	st.heapStore(p.Ref, p.Root, ty, x.coerce(st, v, ty))
	if prot {
		x.checkStep(st, before, m, ins, "atomic store "+f)
	}
}

func (x *Exec) heldTerm(env *Env, e *Expr) *Term {
	v := x.eval(env, e)
	p, ok := v.(PtrV)
	if !ok {
		x.fail("held(): lock expression expected: %s", e)
	}
	m, _, ok2 := x.lockOwner(env.St, p)
	if !ok2 {
		x.fail("held(): not a lock: %s", e)
	}
	if env.St.Held[m.key()] != nil {
		return TTrue
	}
	return TFalse
}

// exitChecks: no lock may be held at return unless the contract says so.
func (x *Exec) exitChecks(st *State, env *Env, ret *ssa.Return) {
	for k := range st.Held {
		if hasEffect(x.FC, "returns-locked") || x.heldAtEntry[k] {
			continue
		}
		x.oblige(st, "held", "exit:"+k, TFalse, "no lock is held at return", ret, nil)
	}
	for k := range x.heldAtEntry {
		if st.Held[k] == nil && !hasEffect(x.FC, "releases") {
			x.oblige(st, "held", "exit-released:"+k, TFalse, "a lock held at entry is still held at return", ret, nil)
		}
	}
}

// ---------------------------------------------------------------------------------------------
// channels and select (abstracted)

func (x *Exec) doSelect(st *State, i *ssa.Select) bool {
	n := len(i.States)
	mk := func(s *State, idx int) {
		var t TupleV
		t = append(t, Scalar{s.A.Const(bigInt(int64(idx)), tyInt), tyInt})
		t = append(t, Scalar{Fresh("recvOk", SBool), tyBool})
		for _, cs := range i.States {
			if cs.Dir == types.RecvOnly {
				et := cs.Chan.Type().Underlying().(*types.Chan).Elem()
				t = append(t, s.freshValue("recv", et))
			}
		}
		s.Frame.Regs[i] = t
		s.Trace = append(s.Trace, fmt.Sprintf("select:%d", idx))
		s.Events = append(s.Events, fmt.Sprintf("select:%d", idx))
		if idx >= 0 {
			dir := "recv"
			if i.States[idx].Dir == types.SendOnly {
				dir = "send"
				x.sendSite(s, i, i.States[idx].Chan, i.States[idx].Send)
			}
			s.Events = append(s.Events, "select-"+dir)
		}
	}
	cases := n
	if !i.Blocking {
		cases = n + 1
	}
	if cases == 0 {
		st.Dead = true
		return false
	}
	for k := 1; k < cases; k++ {
		o := x.fork(st)
		idx := k
		if k == n {
			idx = -1
		}
		mk(o, idx)
		o.Frame.PC++
		x.work = append(x.work, o)
	}
	if n == 0 {
		mk(st, -1)
	} else {
		mk(st, 0)
	}
	return true
}

func (x *Exec) doSend(st *State, i *ssa.Send) {
	x.sendSite(st, i, i.Chan, i.X)
	st.Events = append(st.Events, "send")
}

// sendSite: call-site clauses anchored at a channel send, "site send:<field or callee> assert ..."
// with arg0 the value sent. The channel is named by the struct field it is read from or by the
// function that returned it.
func (x *Exec) sendSite(st *State, ins ssa.Instruction, ch, val ssa.Value) {
	if st.Frame == nil || st.Frame.Fn != x.Fn || x.FC == nil || (len(x.FC.Sites) == 0 && len(x.FC.Ghosts) == 0) {
		return
	}
	name := ch.Name()
	switch c := ch.(type) {
	case *ssa.UnOp:
		if fa, ok := c.X.(*ssa.FieldAddr); ok {
			name = fa.X.Type().Underlying().(*types.Pointer).Elem().Underlying().(*types.Struct).Field(fa.Field).Name()
		}
	case *ssa.Call:
		name = calleeName(c.Common())
		if f := c.Common().StaticCallee(); f != nil {
			name = FuncName(originOf(f))
		}
	}
	x.siteBefore(st, ins, "send:"+name, []Value{x.val(st, val)})
}

func (x *Exec) doRecv(st *State, i *ssa.UnOp) {
	et := i.X.Type().Underlying().(*types.Chan).Elem()
	v := st.freshValue("recv", et)
	if i.CommaOk {
		st.Frame.Regs[i] = TupleV{v, Scalar{Fresh("recvOk", SBool), tyBool}}
	} else {
		st.Frame.Regs[i] = v
	}
	st.Events = append(st.Events, "recv")
}

var _ = token.ADD

// monObjOf: the value is a pointer to a struct whose type has a monitor declaration.
func (x *Exec) monObjOf(st *State, v Value, t types.Type) (monObj, bool) {
	pt, ok := t.Underlying().(*types.Pointer)
	if !ok {
		return monObj{}, false
	}
	mon := x.monitorOfType(pt.Elem())
	if mon == nil {
		return monObj{}, false
	}
	ref, root, _ := x.structPtr(st, v)
	if ref == nil {
		return monObj{}, false
	}
	m := monObj{ref: ref, root: root, ty: pt.Elem(), mon: mon}
	if x.constructing(st, m) {
		return monObj{}, false
	}
	return m, true
}

// postStability is intentionally a no-op: a postcondition describes the view at the method's last
// synchronisation point; callers re-observe monitor state through interference at every later
// access, so unstable facts are sound (they were true at that point).
func (x *Exec) postStability(st *State, vars map[string]Value, ret *ssa.Return) {}

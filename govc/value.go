package main

// Symbolic values and Go-typed arithmetic in the two integer modes.

import (
	"fmt"
	"go/constant"
	"go/token"
	"go/types"
	"math/big"

	"golang.org/x/tools/go/ssa"
)

type Mode int

const (
	ModeInt Mode = iota
	ModeBV
)

func (m Mode) String() string {
	if m == ModeBV {
		return "bv"
	}
	return "int"
}

type Value interface{}

// Scalar: bool, integer, reference (pointer to heap object with empty path, interface,
// map, chan), or opaque type-parameter value.
type Scalar struct {
	T  *Term
	Ty types.Type
}

// ConstV is an untyped constant not yet coerced to a type.
type ConstV struct {
	V  *big.Int
	Ty types.Type // may be nil
}

type SliceV struct {
	Arr, Off, Len, Cap *Term // Arr is always Int; others mode-dependent (int width 64)
	Elem               types.Type
}

type StringV struct {
	Arr, Off, Len *Term
}

type StructV struct {
	Ty     types.Type // named or struct
	Fields []Value
}

type TupleV []Value

// PtrV is a pointer. Exactly one of the three kinds is active.
type PtrV struct {
	Cell *Cell // pointer to a local cell (possibly with a field/elem path inside it)
	Path []int // field indices inside Cell's (struct) value

	Ref  *Term      // heap object reference (Int), nil pointer = 0
	Root string     // heap key prefix, e.g. "drpcwire.Reader" or "drpcstream.Stream.sigs.send"
	HTy  types.Type // type of the pointed-to location

	Arr, Idx *Term      // element pointer into memory (byte memories)
	Elem     types.Type // element type for element pointers
}

type FuncV struct {
	Fn   *ssa.Function
	Bind []Value
	// bound method closure
	Recv Value
	// unknown function value
	Opaque *Term
}

type Cell struct {
	Name string
	Ty   types.Type
	id   int
}

var cellN int

func newCell(name string, ty types.Type) *Cell {
	cellN++
	return &Cell{Name: name, Ty: ty, id: cellN}
}

// ---------------------------------------------------------------------------------------------

type Arith struct {
	Mode Mode
}

func intWidth(b *types.Basic) (w int, signed bool) {
	switch b.Kind() {
	case types.Int8:
		return 8, true
	case types.Int16:
		return 16, true
	case types.Int32:
		return 32, true
	case types.Int64, types.Int:
		return 64, true
	case types.Uint8:
		return 8, false
	case types.Uint16:
		return 16, false
	case types.Uint32:
		return 32, false
	case types.Uint64, types.Uint, types.Uintptr:
		return 64, false
	case types.UntypedInt, types.UntypedRune:
		return 64, true
	}
	return 0, false
}

func basicOf(t types.Type) *types.Basic {
	if t == nil {
		return nil
	}
	b, _ := t.Underlying().(*types.Basic)
	return b
}

func isIntType(t types.Type) bool {
	b := basicOf(t)
	return b != nil && b.Info()&types.IsInteger != 0
}
func isBoolType(t types.Type) bool {
	b := basicOf(t)
	return b != nil && b.Info()&types.IsBoolean != 0
}
func isStringType(t types.Type) bool {
	b := basicOf(t)
	return b != nil && b.Info()&types.IsString != 0
}

var (
	tyInt    = types.Typ[types.Int]
	tyUint64 = types.Typ[types.Uint64]
	tyByte   = types.Typ[types.Uint8]
	tyBool   = types.Typ[types.Bool]
	tyString = types.Typ[types.String]
)

// SortOf gives the SMT sort of a scalar Go type.
func (a *Arith) SortOf(t types.Type) string {
	if b := basicOf(t); b != nil {
		if b.Info()&types.IsBoolean != 0 {
			return SBool
		}
		if b.Info()&types.IsInteger != 0 {
			if a.Mode == ModeBV {
				w, _ := intWidth(b)
				return SBV(w)
			}
			return SInt
		}
		if b.Kind() == types.UnsafePointer {
			return SInt
		}
		if b.Info()&types.IsFloat != 0 {
			return SInt // opaque
		}
	}
	return SInt // references and opaque values
}

func pow2(w int) *big.Int { return new(big.Int).Lsh(big.NewInt(1), uint(w)) }

func typeRange(b *types.Basic) (lo, hi *big.Int) {
	w, s := intWidth(b)
	if s {
		h := pow2(w - 1)
		return new(big.Int).Neg(h), new(big.Int).Sub(h, big.NewInt(1))
	}
	return big.NewInt(0), new(big.Int).Sub(pow2(w), big.NewInt(1))
}

// Const builds a constant of type t.
func (a *Arith) Const(v *big.Int, t types.Type) *Term {
	b := basicOf(t)
	if b != nil && b.Info()&types.IsBoolean != 0 {
		return Bool(v.Sign() != 0)
	}
	if a.Mode == ModeBV && b != nil && b.Info()&types.IsInteger != 0 {
		w, _ := intWidth(b)
		return BVC(v, w)
	}
	return IntBig(v)
}

func (a *Arith) IntConst(v int64) *Term { return a.Const(big.NewInt(v), tyInt) }

// RangeInv is the type invariant of an integer-typed term (int mode only).
func (a *Arith) RangeInv(x *Term, t types.Type) *Term {
	if a.Mode == ModeBV || t == tyMath {
		return TTrue
	}
	b := basicOf(t)
	if b == nil || b.Info()&types.IsInteger == 0 {
		return TTrue
	}
	lo, hi := typeRange(b)
	return And(ILe(IntBig(lo), x), ILe(x, IntBig(hi)))
}

// wrap normalises a mathematical integer into the range of type b (int mode).
func wrapInt(r *Term, b *types.Basic, single bool) *Term {
	w, s := intWidth(b)
	lo, hi := typeRange(b)
	if c, ok := iconst(r); ok {
		m := pow2(w)
		x := new(big.Int).Mod(c, m)
		if s && x.Cmp(hi) > 0 {
			x.Sub(x, m)
		}
		return IntBig(x)
	}
	m := IntBig(pow2(w))
	if single {
		// result is off by at most one modulus
		return Ite(IGt(r, IntBig(hi)), ISub(r, m), Ite(ILt(r, IntBig(lo)), IAdd(r, m), r))
	}
	var wrapped *Term
	if s {
		h := IntBig(pow2(w - 1))
		wrapped = ISub(IMod(IAdd(r, h), m), h)
	} else {
		wrapped = IMod(r, m)
	}
	return Ite(And(ILe(IntBig(lo), r), ILe(r, IntBig(hi))), r, wrapped)
}

func isPow2(v *big.Int) (int, bool) {
	if v.Sign() <= 0 {
		return 0, false
	}
	if new(big.Int).And(v, new(big.Int).Sub(v, big.NewInt(1))).Sign() != 0 {
		return 0, false
	}
	return v.BitLen() - 1, true
}

// andConst computes x & c exactly in int mode for non-negative constant c (two's complement x).
// ubound returns a syntactic exclusive upper bound of a non-negative integer term (nil if unknown):
// constants, u mod c, sums and constant multiples / quotients of bounded terms.
func ubound(t *Term) *big.Int {
	if c, ok := iconst(t); ok {
		if c.Sign() < 0 {
			return nil
		}
		return new(big.Int).Add(c, big.NewInt(1))
	}
	switch t.Op {
	case "mod":
		if c, ok := iconst(t.Args[1]); ok && c.Sign() > 0 {
			return c
		}
	case "+":
		sum := big.NewInt(0)
		for _, a := range t.Args {
			b := ubound(a)
			if b == nil {
				return nil
			}
			sum.Add(sum, new(big.Int).Sub(b, big.NewInt(1)))
		}
		return sum.Add(sum, big.NewInt(1))
	case "*":
		if len(t.Args) == 2 {
			if c, ok := iconst(t.Args[1]); ok && c.Sign() >= 0 {
				if b := ubound(t.Args[0]); b != nil {
					m := new(big.Int).Mul(new(big.Int).Sub(b, big.NewInt(1)), c)
					return m.Add(m, big.NewInt(1))
				}
			}
			if c, ok := iconst(t.Args[0]); ok && c.Sign() >= 0 {
				if b := ubound(t.Args[1]); b != nil {
					m := new(big.Int).Mul(new(big.Int).Sub(b, big.NewInt(1)), c)
					return m.Add(m, big.NewInt(1))
				}
			}
		}
	case "div":
		if c, ok := iconst(t.Args[1]); ok && c.Sign() > 0 {
			if b := ubound(t.Args[0]); b != nil {
				q := new(big.Int).Div(new(big.Int).Sub(b, big.NewInt(1)), c)
				return q.Add(q, big.NewInt(1))
			}
		}
	}
	return nil
}

func andConst(x *Term, c *big.Int) *Term {
	res := IntC(0)
	n := c.BitLen()
	i := 0
	for i < n {
		if c.Bit(i) == 0 {
			i++
			continue
		}
		j := i
		for j < n && c.Bit(j) == 1 {
			j++
		}
		// bits [i,j)
		part := IMod(IDiv(x, IntBig(pow2(i))), IntBig(pow2(j-i)))
		res = IAdd(res, IMul(part, IntBig(pow2(i))))
		i = j
	}
	return res
}

// BinOp evaluates x op y for operands of Go type t (the operand type; for shifts y may have another type yt).
func (a *Arith) BinOp(op token.Token, x, y *Term, t types.Type, yt types.Type) (res *Term, div0 *Term) {
	b := basicOf(t)
	if b != nil && b.Info()&types.IsBoolean != 0 {
		switch op {
		case token.EQL:
			return Eq(x, y), nil
		case token.NEQ:
			return Neq(x, y), nil
		case token.LAND, token.AND:
			return And(x, y), nil
		case token.LOR, token.OR:
			return Or(x, y), nil
		}
		panic("bool binop " + op.String())
	}
	if b == nil || b.Info()&types.IsInteger == 0 {
		// references / opaque: only equality
		switch op {
		case token.EQL:
			return Eq(x, y), nil
		case token.NEQ:
			return Neq(x, y), nil
		}
		// floats etc: opaque
		if op == token.LSS || op == token.LEQ || op == token.GTR || op == token.GEQ {
			return App("opaque_"+op.String(), SBool, x, y), nil
		}
		return App("opaque_"+op.String(), x.Sort, x, y), nil
	}
	w, signed := intWidth(b)
	if a.Mode == ModeBV {
		return a.binBV(op, x, y, w, signed, yt)
	}
	switch op {
	case token.EQL:
		return Eq(x, y), nil
	case token.NEQ:
		return Neq(x, y), nil
	case token.LSS:
		return ILt(x, y), nil
	case token.LEQ:
		return ILe(x, y), nil
	case token.GTR:
		return IGt(x, y), nil
	case token.GEQ:
		return IGe(x, y), nil
	case token.ADD:
		return wrapInt(IAdd(x, y), b, true), nil
	case token.SUB:
		return wrapInt(ISub(x, y), b, true), nil
	case token.MUL:
		return wrapInt(IMul(x, y), b, false), nil
	case token.QUO:
		z := Eq(y, IntC(0))
		if !signed {
			return IDiv(x, y), z
		}
		// truncated division
		q := Ite(IGe(x, IntC(0)),
			Ite(IGt(y, IntC(0)), IDiv(x, y), INeg(IDiv(x, INeg(y)))),
			Ite(IGt(y, IntC(0)), INeg(IDiv(INeg(x), y)), IDiv(INeg(x), INeg(y))))
		return wrapInt(q, b, true), z
	case token.REM:
		z := Eq(y, IntC(0))
		if !signed {
			return IMod(x, y), z
		}
		ay := Ite(IGe(y, IntC(0)), y, INeg(y))
		r := Ite(IGe(x, IntC(0)), IMod(x, ay), INeg(IMod(INeg(x), ay)))
		return r, z
	case token.AND:
		if c, ok := iconst(y); ok && c.Sign() >= 0 {
			return andConst(x, c), nil
		}
		if c, ok := iconst(x); ok && c.Sign() >= 0 {
			return andConst(y, c), nil
		}
		return a.rangeAssumed(App(fmt.Sprintf("and%d", w), SInt, x, y)), nil
	case token.OR:
		// x | c for an unsigned x of width w: the bits of x outside c, plus c (exact)
		orConst := func(v *Term, c *big.Int) *Term {
			if !signed && c.BitLen() <= w {
				bits := w
				if b := ubound(v); b != nil && b.Sign() > 0 {
					if bl := new(big.Int).Sub(b, big.NewInt(1)).BitLen(); bl < bits {
						bits = bl // v < 2^bl: no higher bits to keep
					}
				}
				mask := new(big.Int).Sub(pow2(bits), big.NewInt(1))
				rest := new(big.Int).AndNot(mask, c)
				return IAdd(andConst(v, rest), IntBig(c))
			}
			return ISub(IAdd(v, IntBig(c)), andConst(v, c))
		}
		if c, ok := iconst(y); ok && c.Sign() >= 0 {
			return orConst(x, c), nil
		}
		if c, ok := iconst(x); ok && c.Sign() >= 0 {
			return orConst(y, c), nil
		}
		return App(fmt.Sprintf("or%d", w), SInt, x, y), nil
	case token.XOR:
		if c, ok := iconst(y); ok && c.Sign() >= 0 {
			return ISub(IAdd(x, y), IMul(IntC(2), andConst(x, c))), nil
		}
		return App(fmt.Sprintf("xor%d", w), SInt, x, y), nil
	case token.AND_NOT:
		if c, ok := iconst(y); ok && c.Sign() >= 0 {
			return ISub(x, andConst(x, c)), nil
		}
		return App(fmt.Sprintf("andnot%d", w), SInt, x, y), nil
	case token.SHL:
		if c, ok := iconst(y); ok && c.Sign() >= 0 {
			if c.Cmp(big.NewInt(int64(w))) >= 0 {
				return IntC(0), nil
			}
			return wrapInt(IMul(x, IntBig(pow2(int(c.Int64())))), b, false), nil
		}
		return App(fmt.Sprintf("shl%d", w), SInt, x, y), nil
	case token.SHR:
		if c, ok := iconst(y); ok && c.Sign() >= 0 {
			if c.Cmp(big.NewInt(int64(w))) >= 0 {
				if signed {
					return Ite(ILt(x, IntC(0)), IntC(-1), IntC(0)), nil
				}
				return IntC(0), nil
			}
			return IDiv(x, IntBig(pow2(int(c.Int64())))), nil
		}
		return App(fmt.Sprintf("shr%d", w), SInt, x, y), nil
	}
	panic("int binop " + op.String())
}

func (a *Arith) rangeAssumed(t *Term) *Term { return t }

func (a *Arith) binBV(op token.Token, x, y *Term, w int, signed bool, yt types.Type) (*Term, *Term) {
	cmp := func(u, s string, swap bool) *Term {
		o := u
		if signed {
			o = s
		}
		if swap {
			return BVCmp(o, y, x)
		}
		return BVCmp(o, x, y)
	}
	switch op {
	case token.EQL:
		return Eq(x, y), nil
	case token.NEQ:
		return Neq(x, y), nil
	case token.LSS:
		return cmp("bvult", "bvslt", false), nil
	case token.LEQ:
		return cmp("bvule", "bvsle", false), nil
	case token.GTR:
		return cmp("bvult", "bvslt", true), nil
	case token.GEQ:
		return cmp("bvule", "bvsle", true), nil
	case token.ADD:
		return BVBin("bvadd", x, y), nil
	case token.SUB:
		return BVBin("bvsub", x, y), nil
	case token.MUL:
		return BVBin("bvmul", x, y), nil
	case token.QUO:
		z := Eq(y, BVC(big.NewInt(0), w))
		if signed {
			return BVBin("bvsdiv", x, y), z
		}
		return BVBin("bvudiv", x, y), z
	case token.REM:
		z := Eq(y, BVC(big.NewInt(0), w))
		if signed {
			return BVBin("bvsrem", x, y), z
		}
		return BVBin("bvurem", x, y), z
	case token.AND:
		return BVBin("bvand", x, y), nil
	case token.OR:
		return BVBin("bvor", x, y), nil
	case token.XOR:
		return BVBin("bvxor", x, y), nil
	case token.AND_NOT:
		return BVBin("bvand", x, BVNot(y)), nil
	case token.SHL, token.SHR:
		// bring the count to the operand width
		yw := bvWidth(y.Sort)
		var cnt *Term
		var big_ *Term
		switch {
		case yw == w:
			cnt = y
		case yw < w:
			cnt = BVZeroExt(w-yw, y)
		default:
			cnt = BVExtract(w-1, 0, y)
			big_ = BVCmp("bvule", BVC(big.NewInt(int64(w)), yw), y)
		}
		sop := "bvshl"
		if op == token.SHR {
			sop = "bvlshr"
			if signed {
				sop = "bvashr"
			}
		}
		r := BVBin(sop, x, cnt)
		if big_ != nil {
			over := BVC(big.NewInt(0), w)
			if sop == "bvashr" {
				over = BVBin("bvashr", x, BVC(big.NewInt(int64(w-1)), w))
			}
			r = Ite(big_, over, r)
		}
		return r, nil
	}
	panic("bv binop " + op.String())
}

// Convert converts integer term x of type from to type to.
func (a *Arith) Convert(x *Term, from, to types.Type) *Term {
	fb, tb := basicOf(from), basicOf(to)
	if fb == nil || tb == nil || fb.Info()&types.IsInteger == 0 || tb.Info()&types.IsInteger == 0 {
		return x
	}
	fw, fs := intWidth(fb)
	tw, _ := intWidth(tb)
	if a.Mode == ModeBV {
		switch {
		case tw == fw:
			return x
		case tw < fw:
			return BVExtract(tw-1, 0, x)
		default:
			if fs {
				return BVSignExt(tw-fw, x)
			}
			return BVZeroExt(tw-fw, x)
		}
	}
	flo, fhi := typeRange(fb)
	tlo, thi := typeRange(tb)
	if flo.Cmp(tlo) >= 0 && fhi.Cmp(thi) <= 0 {
		return x // value-preserving
	}
	if b := ubound(x); b != nil && new(big.Int).Sub(b, big.NewInt(1)).Cmp(thi) <= 0 && tlo.Sign() <= 0 {
		return x // syntactically within the target range
	}
	if fw == tw {
		return wrapInt(x, tb, true)
	}
	return wrapInt(x, tb, false)
}

func (a *Arith) Neg(x *Term, t types.Type) *Term {
	if a.Mode == ModeBV {
		return BVNeg(x)
	}
	return wrapInt(INeg(x), basicOf(t), true)
}

func (a *Arith) BitNot(x *Term, t types.Type) *Term {
	if a.Mode == ModeBV {
		return BVNot(x)
	}
	b := basicOf(t)
	_, s := intWidth(b)
	if s {
		return ISub(IntC(-1), x)
	}
	_, hi := typeRange(b)
	return ISub(IntBig(hi), x)
}

// Index-typed helpers (Go int, used for len/cap/off and indices).
func (a *Arith) IdxSort() string {
	if a.Mode == ModeBV {
		return SBV(64)
	}
	return SInt
}
func (a *Arith) Idx(v int64) *Term { return a.Const(big.NewInt(v), tyInt) }
func (a *Arith) IdxAdd(x, y *Term) *Term {
	if a.Mode == ModeBV {
		return BVBin("bvadd", x, y)
	}
	return IAdd(x, y)
}
func (a *Arith) IdxSub(x, y *Term) *Term {
	if a.Mode == ModeBV {
		return BVBin("bvsub", x, y)
	}
	return ISub(x, y)
}
func (a *Arith) IdxLe(x, y *Term) *Term {
	if a.Mode == ModeBV {
		return BVCmp("bvsle", x, y)
	}
	return ILe(x, y)
}
func (a *Arith) IdxLt(x, y *Term) *Term {
	if a.Mode == ModeBV {
		return BVCmp("bvslt", x, y)
	}
	return ILt(x, y)
}
func (a *Arith) ByteSort() string {
	if a.Mode == ModeBV {
		return SBV(8)
	}
	return SInt
}

// ElemSort: sort of a memory element of Go type t.
func (a *Arith) ElemSort(t types.Type) string { return a.SortOf(t) }

func constToBig(c constant.Value) *big.Int {
	switch c.Kind() {
	case constant.Int:
		if v, ok := constant.Int64Val(c); ok {
			return big.NewInt(v)
		}
		b, _ := new(big.Int).SetString(c.ExactString(), 10)
		return b
	case constant.Bool:
		if constant.BoolVal(c) {
			return big.NewInt(1)
		}
		return big.NewInt(0)
	}
	return nil
}

package main

// Property checks: select the contracts that carry a property, discharge their obligations, decide
// VIOLATION / KNOWN-FINDING / pass, write evidence and replay files.

import (
	"encoding/json"
	"fmt"
	"os"
	"path/filepath"
	"regexp"
	"sort"
	"strconv"
	"strings"
	"time"
)

type KnownFinding struct {
	Property    string   `json:"property"`
	ID          string   `json:"id"`
	Obligations []string `json:"obligations"` // obligation names (exact) that carry this finding
	What        string   `json:"what"`
	Input       string   `json:"input"`
	Status      string   `json:"status"` // "open" or "fixed"
	Commit      string   `json:"commit,omitempty"`
}

type KnownFile struct {
	Findings []KnownFinding `json:"findings"`
}

func loadKnown(verifDir string) *KnownFile {
	kf := &KnownFile{}
	b, err := os.ReadFile(filepath.Join(verifDir, "known_findings.json"))
	if err == nil {
		json.Unmarshal(b, kf)
	}
	return kf
}

func hasProp(ps []string, p string) bool {
	for _, q := range ps {
		if q == p {
			return true
		}
	}
	return false
}

type checkRun struct {
	prop    string
	tier    string
	results []*FuncResult
	obls    []*Obligation
	faults  []string
	assumes []string
}

func runCheck(repo, verifDir, prop, tier, evidence string, timeout int, verbose bool) int {
	t0 := time.Now()
	seed := 0
	if s := os.Getenv("VERIF_SEED"); s != "" {
		seed, _ = strconv.Atoi(s)
	}
	if t := os.Getenv("VERIF_TIER"); t == "quick" || t == "thorough" {
		tier = t
	}
	if evidence == "" {
		evidence = filepath.Join(verifDir, "evidence", prop+".json")
	}
	p, err := LoadProgram(repo, []string{"./..."}, map[string]string{"*": filepath.Join(verifDir, "contracts", "std")})
	if err != nil {
		fmt.Println("TOOL-FAULT: cannot load", repo+":", err)
		return 2
	}
	tLoad := time.Since(t0).Seconds()
	run := &checkRun{prop: prop, tier: tier}
	// functions
	var keys []string
	for k, fc := range p.CS.Funcs {
		if hasProp(fc.Props, prop) {
			keys = append(keys, k)
		}
	}
	sort.Strings(keys)
	var trustedFns []string
	for _, k := range keys {
		fc := p.CS.Funcs[k]
		if fc.Trusted != "" {
			trustedFns = append(trustedFns, fc.Pkg+"."+fc.Name+": "+fc.Trusted)
			continue
		}
		res := p.VerifyFunc(fc)
		run.results = append(run.results, res)
	}
	for _, l := range p.CS.Lemmas {
		if hasProp(l.Props, prop) {
			run.results = append(run.results, p.VerifyLemma(l))
		}
	}
	var immRes *FuncResult
	for _, d := range p.CS.Immutables {
		if hasProp(d.Props, prop) {
			if immRes == nil {
				immRes = &FuncResult{Name: "immutable-fields", Pkg: "", Mode: "ssa-scan", Props: []string{prop}}
			}
			immRes.Obls = append(immRes.Obls, p.CheckImmutable(d))
		}
	}
	if immRes != nil {
		run.results = append(run.results, immRes)
	}
	if prop == "C18" {
		// the released v0.0.17 codec functions against the SAME contract text as the working tree's
		olds, fault := verifyOldCodec(repo, verifDir)
		if fault != "" {
			run.faults = append(run.faults, fault)
		}
		run.results = append(run.results, olds...)
	}
	if len(run.results) == 0 {
		fmt.Printf("TOOL-FAULT: no contract carries property %s\n", prop)
		return 2
	}
	for _, r := range run.results {
		if r.Fault != "" {
			run.faults = append(run.faults, fmt.Sprintf("%s: %s", r.Name, r.Fault))
		}
		n := 0
		for _, o := range r.Obls {
			if o.Props == nil || hasProp(o.Props, prop) {
				run.obls = append(run.obls, o)
				n++
			}
		}
		if n == 0 && r.Fault == "" {
			run.faults = append(run.faults, fmt.Sprintf("%s: zero obligations generated", r.Name))
		}
	}
	tGen := time.Since(t0).Seconds() - tLoad
	cfg := solverCfg(tier, timeout)
	SolveAll(cfg, run.obls)
	// second chance for undecided obligations: longer timeout, whole portfolio (guards against load spikes)
	known := loadKnown(verifDir)
	isKnown := func(name string) bool {
		for _, k := range known.Findings {
			if k.Property == prop && k.Status == "open" {
				for _, n := range k.Obligations {
					if n == name {
						return true
					}
				}
			}
		}
		return false
	}
	var retry []*Obligation
	for _, o := range run.obls {
		if !o.Discharged() && !isKnown(o.Name) && (o.Status == "timeout" || o.Status == "unknown" || o.Status == "error") && !o.Cover {
			o.Status = ""
			retry = append(retry, o)
		}
	}
	if len(retry) > 0 {
		queryCache.Range(func(k, v interface{}) bool { queryCache.Delete(k); return true })
		cfg2 := solverCfg(tier, timeout)
		if cfg2.Timeout < 40*time.Second {
			cfg2.Timeout = 40 * time.Second
		}
		cfg2.FirstTry = 20 * time.Second
		SolveAll(cfg2, retry)
	}
	tSolve := time.Since(t0).Seconds() - tLoad - tGen

	type failure struct {
		o     *Obligation
		known *KnownFinding
	}
	var fails []failure
	discharged, total := 0, 0
	coverUndecided := 0
	byBackend := map[string]int{}
	solverTime := 0.0
	// reachability obligations with the same name (one per path on which an assumption was applied) are
	// satisfied by any one satisfiable instance
	coverSat := map[string]bool{}
	for _, o := range run.obls {
		if o.Cover && o.Status == "sat" {
			coverSat[o.Name] = true
		}
	}
	coverFaulted := map[string]bool{}
	for _, o := range run.obls {
		solverTime += o.Time
		if o.Cover {
			switch o.Status {
			case "sat":
				total++
				discharged++
				byBackend[baseSolver(o.Solver)]++
			case "unsat":
				if !coverSat[o.Name] && !coverFaulted[o.Name] {
					coverFaulted[o.Name] = true
					run.faults = append(run.faults, fmt.Sprintf("%s: vacuous (hypotheses unsatisfiable)", o.Name))
				}
			default:
				coverUndecided++
			}
			continue
		}
		total++
		if o.Discharged() {
			discharged++
			byBackend[baseSolver(o.Solver)]++
			continue
		}
		var kfound *KnownFinding
		for i := range known.Findings {
			k := &known.Findings[i]
			if k.Property != prop || k.Status != "open" {
				continue
			}
			for _, n := range k.Obligations {
				if n == o.Name {
					kfound = k
				}
			}
		}
		fails = append(fails, failure{o, kfound})
	}
	exit := 0
	violations := 0
	var knownHit []string
	seenKnown := map[string]bool{}
	replayDir := filepath.Join(verifDir, "replay", prop)
	if replayDirOverride != "" {
		replayDir = filepath.Join(replayDirOverride, prop)
	}
	os.RemoveAll(replayDir)
	reported := map[string]bool{}
	for _, f := range fails {
		if f.known != nil {
			if !seenKnown[f.known.ID] {
				seenKnown[f.known.ID] = true
				fmt.Printf("KNOWN-FINDING: property=%s %s: %s\n", prop, f.known.ID, f.known.What)
				knownHit = append(knownHit, f.known.ID+": "+f.known.What)
			}
			continue
		}
		if reported[f.o.Name] {
			continue
		}
		reported[f.o.Name] = true
		violations++
		exit = 1
		os.MkdirAll(replayDir, 0o755)
		file := filepath.Join(replayDir, sanitize(f.o.Name)+".json")
		rep := buildReplay(p, repo, verifDir, prop, f.o)
		b, _ := json.MarshalIndent(rep, "", " ")
		os.WriteFile(file, b, 0o644)
		suffix := ""
		if !rep.Reproduced {
			suffix = " no-failing-input-found"
		}
		fmt.Printf("failed obligation %s (%s, %s) at %s: %s\n", f.o.Name, f.o.Status, f.o.Solver, f.o.Pos, f.o.Text)
		fmt.Printf("VIOLATION property=%s replay=%s%s\n", prop, file, suffix)
	}
	for _, ft := range run.faults {
		fmt.Println("TOOL-FAULT:", ft)
		if exit == 0 {
			exit = 2
		}
	}
	// evidence
	var funcs []map[string]interface{}
	var externs, assumptions, bounded, outside, notes []string
	extSet := map[string]bool{}
	for _, r := range run.results {
		funcs = append(funcs, map[string]interface{}{"name": r.Pkg + "." + r.Name, "mode": r.Mode, "paths": r.Paths,
			"obligations": len(r.Obls), "callees_by_contract": r.Callees, "inlined": r.Inlined})
		for _, e := range r.Externs {
			if !extSet[e] {
				extSet[e] = true
				externs = append(externs, e)
			}
		}
		for _, a := range r.Assumes {
			assumptions = append(assumptions, r.Name+": "+a)
		}
		bounded = append(bounded, r.Bounded...)
		if r.OutOfSubset {
			outside = append(outside, r.Name)
		}
		for _, n := range r.Notes {
			notes = append(notes, r.Name+": "+n)
		}
	}
	sort.Strings(externs)
	sorted := append([]*Obligation(nil), run.obls...)
	sort.SliceStable(sorted, func(i, j int) bool { return sorted[i].Time > sorted[j].Time })
	var slowest []map[string]interface{}
	for i := 0; i < len(sorted) && i < 5; i++ {
		slowest = append(slowest, map[string]interface{}{"name": sorted[i].Name, "s": round2(sorted[i].Time), "solver": sorted[i].Solver})
	}
	var samples []map[string]interface{}
	kinds := map[string]bool{}
	for _, o := range run.obls {
		if len(samples) >= 8 {
			break
		}
		if kinds[o.Kind] && len(samples) >= 4 {
			continue
		}
		kinds[o.Kind] = true
		samples = append(samples, map[string]interface{}{"name": o.Name, "kind": o.Kind, "clause": o.Text, "status": o.Status,
			"solver": o.Solver, "smt_bytes": len(o.Query), "path": o.Trace, "pos": o.Pos})
	}
	trusted := []string{
		"go/packages + go/ssa (x/tools v0.29.0) translation of the working tree",
		"govc symbolic executor, contract translator and SMT printer (checked only by the must-fail corpus and replays)",
		"SMT solvers: z3 4.8.12, z3 5.1.0 (z3-new), cvc5 1.0.x",
		"machine assumption: no object larger than 2^48 bytes; integers: exact wrap-around semantics in int mode, bit-vectors in bv mode",
		"spec functions denote the same mathematical function in both arithmetic modes (only constant shifts/masks are used in int mode)",
		"concurrency: sequentially consistent atomics and mutex happens-before; interference = havoc of monitor-protected fields under the declared guarantee/rely at every synchronisation point; goroutine bodies started with go are verified as functions of their own, not as part of the spawner",
		"fields shared between goroutines outside a declared monitor or atomic are treated as owned by the executing goroutine (atomic.Pointer fields and locals whose address escapes are volatile)",
		"range over a map: each iteration yields a present key not yielded before, the loop ends when all were yielded; the map is assumed not to be modified by the loop body",
		"immutable field declarations are decided by a syntactic scan of the package's SSA (no unsafe/reflect writes)",
		"front-end obligations (contract:resolves, site-reached, ghost-reached, wake-all, immutable) are decided by the generator, not by a solver",
	}
	for _, e := range externs {
		trusted = append(trusted, "extern contract (assumed): "+e)
	}
	for _, t := range trustedFns {
		assumptions = append(assumptions, "trusted (not verified) "+t)
	}
	assumptions = append(assumptions, p.CS.RawScan...)
	level := "proof"
	explanation := ""
	if len(knownHit) > 0 || violations > 0 || len(bounded) > 0 {
		level = "other"
		explanation = fmt.Sprintf("contract-based deductive verification; %d of %d obligations discharged; open known findings: %v; bounded stand-ins: %v",
			discharged, total, knownHit, bounded)
	}
	cov := map[string]interface{}{
		"obligations": total, "discharged": discharged,
		"checker_cmd":  fmt.Sprintf("/verif/bin/govc check -repo %s -tier %s %s", repo, tier, prop),
		"trusted_base": trusted, "functions_under_contract": funcs, "by_backend": byBackend,
		"solver_time_s": round2(solverTime), "slowest": slowest, "bounded": bounded, "outside_subset": outside,
		"known_findings": knownHit, "cover_undecided": coverUndecided, "samples": samples, "notes": notes,
		"phase_s":     map[string]float64{"load": round2(tLoad), "vcgen": round2(tGen), "solve": round2(tSolve)},
		"tool_faults": run.faults,
	}
	if explanation != "" {
		cov["explanation"] = explanation
	}
	ev := map[string]interface{}{
		"property_id": prop, "tier": tier, "seed": seed, "level": level, "coverage": cov,
		"assumptions": assumptions, "wall_s": round2(time.Since(t0).Seconds()), "violations": violations,
	}
	os.MkdirAll(filepath.Dir(evidence), 0o755)
	b, _ := json.MarshalIndent(ev, "", " ")
	os.WriteFile(evidence, b, 0o644)
	fmt.Printf("%s: %d/%d obligations discharged over %d functions/lemmas (%s tier, %.1fs; load %.1fs, vcgen %.1fs, solve %.1fs)\n",
		prop, discharged, total, len(run.results), tier, time.Since(t0).Seconds(), tLoad, tGen, tSolve)
	if verbose {
		for _, o := range run.obls {
			if !o.Discharged() {
				fmt.Printf("   undischarged: %s %s %s\n", o.Name, o.Status, o.Solver)
			}
		}
	}
	return exit
}

func baseSolver(s string) string {
	if i := strings.IndexAny(s, "(+"); i >= 0 {
		s = s[:i]
	}
	return s
}

func round2(f float64) float64 { return float64(int(f*100+0.5)) / 100 }

var sanRe = regexp.MustCompile(`[^A-Za-z0-9_.-]+`)

func sanitize(s string) string {
	s = sanRe.ReplaceAllString(s, "_")
	if len(s) > 150 {
		s = s[:150]
	}
	return s
}

type Replay struct {
	Property   string            `json:"property"`
	Obligation string            `json:"obligation"`
	Kind       string            `json:"kind"`
	Clause     string            `json:"clause"`
	Pos        string            `json:"pos"`
	Path       string            `json:"path"`
	Status     string            `json:"solver_status"`
	Solver     string            `json:"solver"`
	Inputs     map[string]string `json:"model_inputs,omitempty"`
	Reproduced bool              `json:"reproduced"`
	ReplayNote string            `json:"replay_note"`
	Test       string            `json:"generated_test,omitempty"`
	TestOutput string            `json:"test_output,omitempty"`
	Query      string            `json:"smt_query"`
	SolverOut  string            `json:"solver_output"`
}

func buildReplay(p *Program, repo, verifDir, prop string, o *Obligation) *Replay {
	r := &Replay{Property: prop, Obligation: o.Name, Kind: o.Kind, Clause: o.Text, Pos: o.Pos, Path: o.Trace,
		Status: o.Status, Solver: o.Solver, Query: o.Query, SolverOut: o.Status + "\n" + o.Model}
	if len(r.Query) > 200000 {
		r.Query = r.Query[:200000] + "\n; truncated"
	}
	if o.Status != "sat" {
		r.ReplayNote = "the solver returned no model (" + o.Status + "): obligation undischarged, no failing input found"
		return r
	}
	tryReplay(p, repo, verifDir, o, r)
	return r
}

// verifyOldCodec loads storj.io/drpc v0.0.17 (from the module cache, through the backcompat module
// of the repository) and checks its varint/frame codec against the codec section of the working
// tree's contract file, extracted verbatim on every run.
func verifyOldCodec(repo, verifDir string) ([]*FuncResult, string) {
	src := filepath.Join(repo, "drpcwire", "zz_verif_contracts.go")
	b, err := os.ReadFile(src)
	if err != nil {
		return nil, "C18: cannot read " + src
	}
	var sb strings.Builder
	for _, l := range strings.Split(string(b), "\n") {
		if strings.HasPrefix(l, "// ---- Reader") {
			break
		}
		if strings.HasPrefix(strings.TrimSpace(l), "//@") {
			sb.WriteString(l + "\n")
		} else {
			sb.WriteString("\n")
		}
	}
	dir, err := os.MkdirTemp("", "govc-old")
	if err != nil {
		return nil, "C18: temp dir"
	}
	defer os.RemoveAll(dir)
	os.WriteFile(filepath.Join(dir, "codec.contracts"), []byte(sb.String()), 0o644)
	// the released reader's own contract and the step-agreement lemma (kept under /verif: that code is not in /repo)
	if rb, err := os.ReadFile(filepath.Join(verifDir, "contracts", "v0.0.17", "reader.contracts")); err == nil {
		os.WriteFile(filepath.Join(dir, "reader.contracts"), rb, 0o644)
	} else {
		return nil, "C18: cannot read contracts/v0.0.17/reader.contracts"
	}
	oldDir := filepath.Join(repo, "internal", "backcompat", "oldservice")
	p, err := LoadProgram(oldDir, []string{"storj.io/drpc/drpcwire"}, map[string]string{
		"storj.io/drpc/drpcwire": dir, "*": filepath.Join(verifDir, "contracts", "std")})
	if err != nil {
		return nil, "C18: cannot load v0.0.17 sources: " + err.Error()
	}
	pk := p.ByPath["storj.io/drpc/drpcwire"]
	if pk == nil || pk.Module == nil || pk.Module.Version != "v0.0.17" {
		v := "?"
		if pk != nil && pk.Module != nil {
			v = pk.Module.Version
			if pk.Module.Replace != nil {
				v = pk.Module.Replace.Version
			}
		}
		if v != "v0.0.17" {
			return nil, "C18: expected storj.io/drpc v0.0.17, loaded " + v
		}
	}
	var out []*FuncResult
	for _, name := range []string{"ReadVarint", "AppendVarint", "ParseFrame", "AppendFrame", "(ID).Less", "(*Reader).ReadPacket"} {
		fc := p.CS.Funcs["storj.io/drpc/drpcwire."+name]
		if fc == nil {
			return nil, "C18: codec contract for " + name + " not found in the extracted text"
		}
		r := p.VerifyFunc(fc)
		r.Name = "v0.0.17:" + r.Name
		for _, o := range r.Obls {
			o.Name = "v0.0.17/" + o.Name
			o.Props = nil
			o.Replay = nil
		}
		out = append(out, r)
	}
	for _, l := range p.CS.Lemmas {
		if l.Name == "L.readerStepAgree" {
			r := p.VerifyLemma(l)
			for _, o := range r.Obls {
				o.Props = nil
			}
			out = append(out, r)
		}
	}
	return out, ""
}

package main

func runCheck(repo, verifDir, prop, tier, evidence string, timeout int, verbose bool) int { return 2 }

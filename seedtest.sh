#!/bin/bash
# usage: seedtest.sh <agent-worktree> <seedN> <PROP> [demo run args...]
# confirms a seeded change (builds, existing tests pass, demo fails with / passes without) in a scratch
# worktree, then runs the property check against /repo with the patch applied and reverts it.
export GOFLAGS=-mod=mod GOPROXY=off GOSUMDB=off GOTOOLCHAIN=local
wt=$1; seed=$2; prop=$3
src=$wt/$seed
cw=/tmp/cw_$$
git -C /repo worktree add -q --detach $cw HEAD || exit 3
trap 'git -C /repo worktree remove --force $cw >/dev/null 2>&1; rm -rf $cw' EXIT
cd $cw
echo "== patch:"; cat $src/patch.diff | grep -E '^[+-]' | grep -vE '^(\+\+\+|---)' | head -20
git apply $src/patch.diff || { echo "PATCH DOES NOT APPLY"; exit 3; }
go build ./... || { echo "DOES NOT BUILD"; exit 3; }
pk=$(git diff --name-only | xargs -n1 dirname | sort -u | sed 's|^|./|' | tr '\n' ' ')
echo "== existing tests with patch (whole root module + backcompat, grpccompat, twirpcompat):"
go test -vet=off -count=1 ./... 2>&1 | grep -v "no test files" | grep -v "^ok" | tail -6; echo "root suite exit=${PIPESTATUS[0]}"
for m in internal/backcompat internal/grpccompat internal/twirpcompat; do (cd $m && go test -vet=off -count=1 ./... 2>&1 | grep -v "no test files" | grep -v "^ok" | tail -3; echo "$m exit=${PIPESTATUS[0]}"); done
mkdir -p $cw/$seed && cp $src/*_test.go $cw/$seed/ 2>/dev/null
echo "== demo files: $(ls $src)"
# demo: external test package in its own directory (agent convention) or in-package test
run=${4:-}
demo_dir=./$seed/
if grep -q "^package .*_test\|^package seed" $cw/$seed/*_test.go 2>/dev/null && ! grep -q "^package drpc" $cw/$seed/*_test.go; then :; else
  # in-package demo: copy next to the package named in the file
  p=$(grep -h "^package " $cw/$seed/*_test.go | head -1 | awk '{print $2}' | sed 's/_test$//')
  d=$(find . -maxdepth 3 -type d -name "$p" | head -1)
  [ -n "$d" ] && cp $cw/$seed/*_test.go $d/ && demo_dir=$d/ && rm -rf $cw/$seed
fi
echo "== demo WITH patch ($demo_dir):"
go test -count=1 -timeout 120s $run $demo_dir 2>&1 | tail -4
git checkout -q -- $(git diff --name-only)
echo "== demo WITHOUT patch:"
go test -count=1 -timeout 120s $run $demo_dir 2>&1 | tail -3
cd /verif
[ -n "$NOCHECK" ] && exit 0
echo "== check $prop with patch applied to /repo:"
git -C /repo apply $src/patch.diff && ./check $prop 2>&1 | grep -E "VIOLATION|KNOWN|TOOL-FAULT|discharged|failed obligation" | cut -c1-260 | head -12; echo "exit=${PIPESTATUS[0]}"
git -C /repo apply -R $src/patch.diff
git -C /repo status --short | head -3

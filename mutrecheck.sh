#!/bin/bash
# mutrecheck.sh <tsv> : re-run the obligations for every SURVIVOR of an earlier mutrun (no tests), print those that still survive
export GOFLAGS=-mod=mod GOPROXY=off GOSUMDB=off GOTOOLCHAIN=local
tsv=$1; S=/tmp/mut/recheck_$$; rm -rf $S; rsync -a --exclude .git /repo/ $S/
grep SURVIVOR "$tsv" | while IFS=$'\t' read pkg fn id line desc status; do
  file=""
  for f in /repo/$pkg/*.go; do case $f in *_test.go|*zz_verif*) continue;; esac; if /verif/bin/mutgen list $f "$fn" >/dev/null 2>&1; then file=$(basename $f); break; fi; done
  [ -z "$file" ] && continue
  /verif/bin/mutgen apply /repo/$pkg/$file "$fn" $id > $S/$pkg/$file
  res=$(/verif/bin/govc func -repo $S $pkg "$fn" 2>&1)
  for cl in $(grep -h "^//@ func " /repo/$pkg/zz_verif_contracts.go | sed 's|^//@ func ||' | grep -F "$fn\$"); do res="$res
$(/verif/bin/govc func -repo $S $pkg "$cl" 2>&1)"; done
  if echo "$res" | grep -qE "^  FAIL|TOOL-FAULT"; then :; else echo -e "$fn\t$line\t$desc"; fi
  cp /repo/$pkg/$file $S/$pkg/$file
done
rm -rf $S

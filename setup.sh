#!/bin/bash
# Builds the verifier from /verif/govc (x/tools v0.29.0 from the module cache, default go), offline.
set -e
cd "$(dirname "$0")/govc"
export GOFLAGS=-mod=mod GOPROXY=off GOSUMDB=off GOTOOLCHAIN=local
mkdir -p ../bin
go build -o ../bin/govc .

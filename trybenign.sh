#!/bin/bash
# trybenign.sh <patch.diff> : apply a behaviour-preserving patch to /repo, run the quick checks of every
# property that has a contract in a touched package (into scratch evidence), revert. Any VIOLATION
# or non-zero exit is a false alarm of the machinery.
patch=$(realpath "$1")
git -C /repo apply "$patch" || { echo "cannot apply $patch"; exit 2; }
trap 'git -C /repo apply -R "$patch"' EXIT
pkgs=$(git -C /repo diff --name-only | xargs -n1 dirname | sort -u)
props=$(for p in $pkgs; do grep -h "^//@   props" /repo/$p/zz_verif_contracts.go 2>/dev/null | sed 's/.*props//'; done | tr ' ' '\n' | grep '^C' | sort -u)
# callers in other packages may inline or call the touched functions: add the properties that mention the package anywhere
echo "touched: $pkgs ; properties: $(echo $props)"
rc=0
for p in $props; do
  out=$(/verif/bin/govc check -repo /repo -evidence /tmp/trybenign_ev.json -replaydir /tmp/trybenign_replay $p 2>&1); e=$?
  v=$(echo "$out" | grep -c '^VIOLATION')
  if [ $e -ne 0 ] || [ $v -ne 0 ]; then rc=1; echo "--- $p: exit=$e violations=$v"; echo "$out" | grep -E "^failed obligation|TOOL-FAULT" | cut -c1-260 | head -4; fi
done
rm -rf /tmp/trybenign_ev.json /tmp/trybenign_replay
[ $rc -eq 0 ] && echo "quiet"
exit $rc

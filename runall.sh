#!/bin/bash
# runs every registered quick check on the current tree (refreshes the evidence files)
cd "$(dirname "$0")"
fail=0
for p in $(python3 -c "import json;print(' '.join(c['property_id'] for c in json.load(open('MANIFEST.json'))['checks']))"); do
  out=$(./check $p 2>&1); rc=$?
  echo "$p rc=$rc $(echo "$out" | tail -1)"
  [ $rc -ne 0 ] && { echo "$out" | grep -E "VIOLATION|TOOL-FAULT" | head -5; fail=1; }
done
exit $fail

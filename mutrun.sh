#!/bin/bash
# mutrun.sh <pkgdir> [func-regex] : systematic single-point mutants of the functions under contract in a
# package. For each mutant that compiles and passes the existing tests of the package (and of the
# packages built on it), run the function's own obligations; a mutant no obligation notices is a
# SURVIVOR (either equivalent, or a gap in the contract). Results: $OUT (default /tmp/mut/<pkg>.tsv).
export GOFLAGS=-mod=mod GOPROXY=off GOSUMDB=off GOTOOLCHAIN=local
pkg=$1; fre=${2:-.}
S=${SCRATCH:-/tmp/mut/scratch_$pkg}; OUT=${OUT:-/tmp/mut/$pkg.tsv}
mkdir -p /tmp/mut; rm -rf "$S"; rsync -a --exclude .git /repo/ "$S/"
deps="./$pkg/"
case $pkg in
  drpcwire) deps="./drpcwire/ ./drpcstream/ ./drpcmanager/ ./drpcconn/";;
  drpcstream) deps="./drpcstream/ ./drpcmanager/ ./drpcconn/ ./drpcserver/";;
  drpcmanager) deps="./drpcmanager/ ./drpcconn/ ./drpcserver/";;
  drpcsignal) deps="./drpcstream/ ./drpcmanager/ ./drpcconn/ ./drpcpool/";;
  drpcmetadata) deps="./drpcmetadata/ ./drpcmanager/ ./drpcconn/ ./drpchttp/";;
  drpcerr) deps="./drpcerr/ ./drpcwire/ ./drpchttp/";;
  drpcctx) deps="./drpcctx/ ./drpcserver/";;
esac
funcs=$(grep -h "^//@ func " /repo/$pkg/zz_verif_contracts.go | sed 's|^//@ func ||' | grep -E "$fre")
for fn in $funcs; do
  # skip trusted functions and closures
  case $fn in *\$*) continue;; esac
  if awk -v f="//@ func $fn" '$0==f{on=1;next} on&&/^\/\/@ func /{exit} on&&/trusted/{print "t"}' /repo/$pkg/zz_verif_contracts.go | grep -q t; then continue; fi
  file=""
  for f in /repo/$pkg/*.go; do case $f in *_test.go|*zz_verif*) continue;; esac; if /verif/bin/mutgen list $f "$fn" >/dev/null 2>&1; then file=$(basename $f); break; fi; done
  [ -z "$file" ] && continue
  /verif/bin/mutgen list /repo/$pkg/$file "$fn" | while IFS=$'\t' read id line desc; do
    /verif/bin/mutgen apply /repo/$pkg/$file "$fn" $id > "$S/$pkg/$file" 2>/dev/null || { cp /repo/$pkg/$file "$S/$pkg/$file"; continue; }
    if ! (cd "$S" && go build ./... >/dev/null 2>&1); then echo -e "$pkg\t$fn\t$id\t$line\t$desc\tnocompile" >> "$OUT"; cp /repo/$pkg/$file "$S/$pkg/$file"; continue; fi
    if ! (cd "$S" && go test -vet=off -count=1 -timeout 90s $deps >/dev/null 2>&1); then echo -e "$pkg\t$fn\t$id\t$line\t$desc\tkilled-by-tests" >> "$OUT"; cp /repo/$pkg/$file "$S/$pkg/$file"; continue; fi
    res=$(/verif/bin/govc func -repo "$S" $pkg "$fn" 2>&1)
    # closures of the function that carry contracts of their own
    for cl in $(grep -h "^//@ func " /repo/$pkg/zz_verif_contracts.go | sed 's|^//@ func ||' | grep -F "$fn\$"); do
      res="$res
$(/verif/bin/govc func -repo "$S" $pkg "$cl" 2>&1)"
    done
    if echo "$res" | grep -qE "^  FAIL|TOOL-FAULT"; then
      ob=$(echo "$res" | grep -E "^  FAIL" | head -1 | awk '{print $2}')
      echo -e "$pkg\t$fn\t$id\t$line\t$desc\tdetected\t$ob" >> "$OUT"
    else
      echo -e "$pkg\t$fn\t$id\t$line\t$desc\tSURVIVOR" >> "$OUT"
    fi
    cp /repo/$pkg/$file "$S/$pkg/$file"
  done
done
rm -rf "$S"
echo "done $pkg" >> "$OUT"

#!/bin/bash
# usage: mut.sh <file> <sed-expr> <pkg> <func> [more govc args]   -- debug helper: mutate a scratch copy and verify one function
set -e
S=$(mktemp -d /tmp/mut.XXXXXX)
trap 'rm -rf "$S"' EXIT
rsync -a --exclude .git /repo/ "$S/"
f=$1; e=$2; shift 2
sed -i "$e" "$S/$f"
if diff -q /repo/$f "$S/$f" >/dev/null; then echo "MUTATION DID NOT APPLY"; exit 3; fi
(cd "$S" && GOFLAGS=-mod=mod GOPROXY=off go build ./... ) || { echo "mutant does not compile"; exit 3; }
/verif/bin/govc func -repo "$S" "$@"

// mutgen: generates single-point source mutants of one function (operator swaps, off-by-one on
// integer literals, negated conditions, deleted statements, swapped adjacent statements) — a
// systematic complement to the hand-written seeded changes. Usage:
//
//	mutgen list <file.go> <FuncName>            prints "id<TAB>line<TAB>description" per mutant
//	mutgen apply <file.go> <FuncName> <id>      prints the mutated file to stdout
//
// FuncName is "Name" or "(*T).Name" / "(T).Name".
package main

import (
	"bytes"
	"fmt"
	"go/ast"
	"go/parser"
	"go/printer"
	"go/token"
	"os"
	"strconv"
	"strings"
)

type mutant struct {
	line int
	desc string
	do   func()
	undo func()
}

func funcName(fd *ast.FuncDecl) string {
	if fd.Recv == nil || len(fd.Recv.List) == 0 {
		return fd.Name.Name
	}
	t := fd.Recv.List[0].Type
	ptr := false
	if s, ok := t.(*ast.StarExpr); ok {
		ptr = true
		t = s.X
	}
	if ix, ok := t.(*ast.IndexExpr); ok {
		t = ix.X
	}
	if ix, ok := t.(*ast.IndexListExpr); ok {
		t = ix.X
	}
	id, _ := t.(*ast.Ident)
	n := "?"
	if id != nil {
		n = id.Name
	}
	if ptr {
		return "(*" + n + ")." + fd.Name.Name
	}
	return "(" + n + ")." + fd.Name.Name
}

var swaps = map[token.Token][]token.Token{
	token.LSS: {token.LEQ}, token.LEQ: {token.LSS}, token.GTR: {token.GEQ}, token.GEQ: {token.GTR},
	token.EQL: {token.NEQ}, token.NEQ: {token.EQL}, token.ADD: {token.SUB}, token.SUB: {token.ADD},
	token.LAND: {token.LOR}, token.LOR: {token.LAND},
}

func main() {
	if len(os.Args) < 4 {
		fmt.Fprintln(os.Stderr, "usage: mutgen list|apply file func [id]")
		os.Exit(2)
	}
	fset := token.NewFileSet()
	f, err := parser.ParseFile(fset, os.Args[2], nil, parser.ParseComments)
	if err != nil {
		fmt.Fprintln(os.Stderr, err)
		os.Exit(2)
	}
	var fd *ast.FuncDecl
	for _, d := range f.Decls {
		if x, ok := d.(*ast.FuncDecl); ok && funcName(x) == os.Args[3] && x.Body != nil {
			fd = x
		}
	}
	if fd == nil {
		fmt.Fprintln(os.Stderr, "function not found:", os.Args[3])
		os.Exit(3)
	}
	var ms []mutant
	line := func(p token.Pos) int { return fset.Position(p).Line }
	ast.Inspect(fd.Body, func(n ast.Node) bool {
		switch x := n.(type) {
		case *ast.BinaryExpr:
			for _, t := range swaps[x.Op] {
				x, old, t := x, x.Op, t
				ms = append(ms, mutant{line(x.OpPos), fmt.Sprintf("%s -> %s", old, t), func() { x.Op = t }, func() { x.Op = old }})
			}
		case *ast.BasicLit:
			if x.Kind == token.INT {
				if v, err := strconv.ParseInt(x.Value, 0, 64); err == nil {
					x, old := x, x.Value
					ms = append(ms, mutant{line(x.Pos()), fmt.Sprintf("literal %s -> %d", old, v+1), func() { x.Value = strconv.FormatInt(v+1, 10) }, func() { x.Value = old }})
					if v > 0 {
						ms = append(ms, mutant{line(x.Pos()), fmt.Sprintf("literal %s -> %d", old, v-1), func() { x.Value = strconv.FormatInt(v-1, 10) }, func() { x.Value = old }})
					}
				}
			}
		case *ast.IfStmt:
			x, old := x, x.Cond
			ms = append(ms, mutant{line(x.Cond.Pos()), "negate if condition", func() { x.Cond = &ast.UnaryExpr{Op: token.NOT, X: &ast.ParenExpr{X: old}} }, func() { x.Cond = old }})
		case *ast.ForStmt:
			if x.Cond != nil {
				// loops are not negated (non-termination); handled by operator swaps inside the condition
			}
		case *ast.BlockStmt:
			for i := range x.List {
				i, blk := i, x
				switch s := blk.List[i].(type) {
				case *ast.ExprStmt, *ast.AssignStmt, *ast.IncDecStmt, *ast.DeferStmt:
					if as, ok := s.(*ast.AssignStmt); ok && as.Tok == token.DEFINE {
						continue // deleting a declaration does not compile
					}
					old := blk.List[i]
					ms = append(ms, mutant{line(old.Pos()), "delete statement", func() { blk.List[i] = &ast.EmptyStmt{Semicolon: old.Pos()} }, func() { blk.List[i] = old }})
				}
				if i+1 < len(blk.List) {
					a, b := blk.List[i], blk.List[i+1]
					if simple(a) && simple(b) {
						ms = append(ms, mutant{line(a.Pos()), "swap with next statement", func() { blk.List[i], blk.List[i+1] = b, a }, func() { blk.List[i], blk.List[i+1] = a, b }})
					}
				}
			}
		case *ast.CaseClause:
			// case bodies are statement lists too
			for i := range x.Body {
				i, cc := i, x
				switch s := cc.Body[i].(type) {
				case *ast.ExprStmt, *ast.AssignStmt, *ast.IncDecStmt:
					if as, ok := s.(*ast.AssignStmt); ok && as.Tok == token.DEFINE {
						continue
					}
					old := cc.Body[i]
					ms = append(ms, mutant{line(old.Pos()), "delete statement", func() { cc.Body[i] = &ast.EmptyStmt{Semicolon: old.Pos()} }, func() { cc.Body[i] = old }})
				}
			}
		case *ast.UnaryExpr:
			if x.Op == token.NOT {
				// remove negation: !e -> e is produced by wrapping: handled by parent replacement being awkward; skip
			}
		}
		return true
	})
	switch os.Args[1] {
	case "list":
		for i, m := range ms {
			fmt.Printf("%d\t%d\t%s\n", i, m.line, m.desc)
		}
	case "apply":
		id, _ := strconv.Atoi(os.Args[4])
		if id < 0 || id >= len(ms) {
			os.Exit(3)
		}
		ms[id].do()
		var buf bytes.Buffer
		if err := (&printer.Config{Mode: printer.UseSpaces | printer.TabIndent, Tabwidth: 8}).Fprint(&buf, fset, f); err != nil {
			fmt.Fprintln(os.Stderr, err)
			os.Exit(2)
		}
		os.Stdout.Write(buf.Bytes())
	}
	_ = strings.TrimSpace
}

func simple(s ast.Stmt) bool {
	switch x := s.(type) {
	case *ast.ExprStmt, *ast.IncDecStmt, *ast.DeferStmt:
		return true
	case *ast.AssignStmt:
		return x.Tok != token.DEFINE
	}
	return false
}

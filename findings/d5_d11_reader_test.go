package drpcwire

// Reproductions of the two C09 known findings on the real Reader (run with go test -overlay, see
// /verif/findings/run.sh). They FAIL on the pinned tree: that is the finding.

import (
	"bytes"
	"io"
	"testing"
)

type chunkReader struct {
	data  []byte
	chunk int
}

func (c *chunkReader) Read(p []byte) (int, error) {
	if len(c.data) == 0 {
		return 0, io.EOF
	}
	n := c.chunk
	if n > len(c.data) {
		n = len(c.data)
	}
	if n > len(p) {
		n = len(p)
	}
	copy(p, c.data[:n])
	c.data = c.data[n:]
	return n, nil
}

func readAll(r io.Reader, max int) (pkts int, err error) {
	rd := NewReaderWithOptions(r, ReaderOptions{MaximumBufferSize: max})
	for {
		_, err := rd.ReadPacket()
		if err != nil {
			return pkts, err
		}
		pkts++
	}
}

// D5: the same byte stream gives different results depending on how the transport chunks reads.
func TestVerifFindingD5(t *testing.T) {
	var stream []byte
	for i := 0; i < 400; i++ {
		stream = AppendFrame(stream, Frame{Data: make([]byte, 6), ID: ID{Stream: 1, Message: uint64(i + 1)}, Kind: KindMessage, Done: true})
	}
	n1, e1 := readAll(&chunkReader{data: append([]byte(nil), stream...), chunk: 1}, 1000)
	n2, e2 := readAll(&chunkReader{data: append([]byte(nil), stream...), chunk: 1 << 20}, 1000)
	if n1 != n2 || (e1 == io.EOF) != (e2 == io.EOF) {
		t.Fatalf("chunk-dependent result: 1-byte reads: %d packets, %v; one read: %d packets, %v", n1, e1, n2, e2)
	}
}

// D11: after message id 2^64-1 the watermark wraps and lower ids are accepted again.
func TestVerifFindingD11(t *testing.T) {
	var stream []byte
	stream = AppendFrame(stream, Frame{ID: ID{Stream: 1, Message: ^uint64(0)}, Kind: KindMessage, Done: true})
	stream = AppendFrame(stream, Frame{ID: ID{Stream: 1, Message: 5}, Kind: KindMessage, Done: true})
	n, err := readAll(bytes.NewReader(stream), 0)
	if n != 1 {
		t.Fatalf("ids went backwards: %d packets delivered, final error %v (want 1 packet, then a monotonicity error)", n, err)
	}
}

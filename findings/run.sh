#!/bin/bash
# usage: run.sh <pkgdir> <testfile> <TestName>  -- runs a finding reproduction in-package without writing into /repo
export GOFLAGS=-mod=mod GOPROXY=off GOSUMDB=off GOTOOLCHAIN=local
d=$(mktemp -d); trap 'rm -rf $d' EXIT
echo "{\"Replace\":{\"/repo/$1/zz_verif_finding_test.go\":\"$(cd $(dirname $2) && pwd)/$(basename $2)\"}}" > $d/ov.json
cd /repo && go test -overlay $d/ov.json -vet=off -count=1 -timeout 120s -run "^$3\$" -v ./$1/

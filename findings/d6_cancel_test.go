package drpcstream

// Reproduction of the C04 known finding D6 on the real Stream: with a send parked inside the
// transport, a concurrent Close takes s.mu and then waits for the write lock; Cancel (what the
// manager calls when the context is cancelled in the default, hard-cancel mode) then blocks on s.mu,
// so cancelling does not unblock anything. This test FAILS on the pinned tree: that is the finding.

import (
	"context"
	"errors"
	"testing"
	"time"

	"storj.io/drpc/drpcwire"
)

type stuckWriter struct{ entered, release chan struct{} }

func (w *stuckWriter) Write(p []byte) (int, error) {
	select {
	case w.entered <- struct{}{}:
	default:
	}
	<-w.release
	return len(p), nil
}

type rawEnc struct{}

func (rawEnc) Marshal(msg interface{}) ([]byte, error)   { return msg.([]byte), nil }
func (rawEnc) Unmarshal(buf []byte, msg interface{}) error { return nil }

func TestVerifFindingD6(t *testing.T) {
	w := &stuckWriter{entered: make(chan struct{}, 1), release: make(chan struct{})}
	defer close(w.release)
	s := New(context.Background(), 1, drpcwire.NewWriter(w, 1))

	go func() { _ = s.RawWrite(drpcwire.KindMessage, []byte("hello")) }() // parks in Write holding the write lock
	<-w.entered
	go func() { _ = s.Close() }() // takes s.mu, then waits for the write lock
	time.Sleep(100 * time.Millisecond)

	done := make(chan struct{})
	go func() { s.Cancel(errors.New("context canceled")); close(done) }()
	select {
	case <-done:
	case <-time.After(2 * time.Second):
		t.Fatal("Cancel did not return within 2s: it waits for s.mu, which Close holds while waiting for the write lock held by the stalled send")
	}
}

package drpcpool

// C15 findings on the real pool. D1 (repaired by a fix: commit) is kept as a regression
// demonstration; D7 and D10 are open known findings and FAIL on the current tree.

import (
	"context"
	"sync/atomic"
	"testing"
	"time"

	"storj.io/drpc"
)

type fconn struct {
	closed    chan struct{}
	closeGate chan struct{} // when non-nil, Close blocks until it is closed
	closes    int32
}

func newFconn() *fconn { return &fconn{closed: make(chan struct{})} }

func (c *fconn) Close() error {
	if c.closeGate != nil {
		<-c.closeGate
	}
	if atomic.AddInt32(&c.closes, 1) == 1 {
		close(c.closed)
	}
	return nil
}
func (c *fconn) Closed() <-chan struct{}    { return c.closed }
func (c *fconn) Unblocked() <-chan struct{} { return closedCh }
func (c *fconn) Invoke(ctx context.Context, rpc string, enc drpc.Encoding, in, out drpc.Message) error {
	return nil
}
func (c *fconn) NewStream(ctx context.Context, rpc string, enc drpc.Encoding) (drpc.Stream, error) {
	return nil, nil
}

func cachedFor(p *Pool[string, *fconn], key string) int {
	p.mu.Lock()
	defer p.mu.Unlock()
	n := 0
	for e := p.order.head; e != nil; e = e.global.next {
		if e.key == key {
			n++
		}
	}
	return n
}

// D1 (fixed): with Capacity 1, Put k, Put k evicts the first conn and must leave the second takeable.
func TestVerifFixedD1(t *testing.T) {
	p := New[string, *fconn](Options{Capacity: 1})
	p.Put("k", newFconn())
	c2 := newFconn()
	p.Put("k", c2)
	got, ok := p.Take("k")
	if !ok || got != c2 {
		t.Fatalf("the cached conn cannot be taken: ok=%v (cached for k: %d)", ok, cachedFor(p, "k"))
	}
}

// D1 (fixed), bound variant: Capacity 3, KeyCapacity 2, Put k,j,j,k,k,k must not cache 3 for k.
func TestVerifFixedD1Bound(t *testing.T) {
	p := New[string, *fconn](Options{Capacity: 3, KeyCapacity: 2})
	for _, k := range []string{"k", "j", "j", "k", "k", "k"} {
		p.Put(k, newFconn())
	}
	if n := cachedFor(p, "k"); n > 2 {
		t.Fatalf("%d conns cached for key k with KeyCapacity 2", n)
	}
}

// D7 (open): closing a pool connection twice panics (close of closed channel).
func TestVerifFindingD7(t *testing.T) {
	defer func() {
		if r := recover(); r != nil {
			t.Fatalf("second Close panicked: %v", r)
		}
	}()
	p := New[string, *fconn](Options{})
	c := p.Get(context.Background(), "k", func(ctx context.Context, key string) (*fconn, error) { return newFconn(), nil })
	_ = c.Close()
	_ = c.Close()
}

// D10 (open): the expiry callback unlinks an entry that Take already unlinked: the counts go
// negative and the capacity bound is lost.
func TestVerifFindingD10(t *testing.T) {
	p := New[string, *fconn](Options{Capacity: 1, Expiration: time.Millisecond})
	c1 := newFconn()
	c1.closeGate = make(chan struct{})
	p.Put("k", c1)
	time.Sleep(50 * time.Millisecond) // the callback has fired and is parked inside c1.Close()
	p.Take("k")                        // unlinks c1 although Stop() reports the timer already fired
	close(c1.closeGate)                // the callback continues and unlinks c1 a second time
	time.Sleep(50 * time.Millisecond)
	p.mu.Lock()
	cnt := p.order.count
	p.mu.Unlock()
	if cnt < 0 {
		t.Fatalf("order.count == %d after the expiry callback unlinked an already unlinked entry", cnt)
	}
}

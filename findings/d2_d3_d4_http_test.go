package drpchttp

// Regression demonstrations of the three repaired drpchttp defects (they FAILED before the fix:
// commits and pass now): D2 unescape("%") panicked, D3 getCode panicked on a chain ending in nil,
// D4 twirpRead truncated an oversize body instead of rejecting it.

import (
	"bytes"
	"testing"
)

func TestVerifFixedD2(t *testing.T) {
	defer func() {
		if r := recover(); r != nil {
			t.Fatalf("unescape panicked: %v", r)
		}
	}()
	if _, err := unescape("%"); err == nil {
		t.Fatal("malformed escape accepted")
	}
}

type nilUnwrap struct{}

func (nilUnwrap) Error() string { return "x" }
func (nilUnwrap) Unwrap() error { return nil }

func TestVerifFixedD3(t *testing.T) {
	defer func() {
		if r := recover(); r != nil {
			t.Fatalf("getCode panicked: %v", r)
		}
	}()
	if c := getCode(nilUnwrap{}); c != "unknown" {
		t.Fatalf("code %q", c)
	}
}

func TestVerifFixedD4(t *testing.T) {
	body := bytes.NewReader(make([]byte, maxSize+1))
	data, err := twirpRead(body)
	if err == nil {
		t.Fatalf("oversize body accepted, truncated to %d bytes", len(data))
	}
}
